//! Conformance harness binding the TLA+ specification in /verif/spec to the real code in /repo.
mod cache;
mod evalrec;
mod frontend;
mod game;
mod perft;
mod geometry;
mod records;
mod replay;
mod search;
mod trace;
mod transient;
mod util;

use std::alloc::{GlobalAlloc, Layout, System};

/// The code under test creates a `MoveGenerator::new()` (a hash table sized for 10^8 entries:
/// ~134 MB of freshly touched pages) per root move of every search and count; in this VM fresh
/// page faults dominate the run time.  Big blocks are recycled instead of being returned to the
/// OS, so their pages stay resident.  This changes nothing the code under test can observe.
struct PoolAlloc;
const BIG: usize = 32 << 20;
static POOL: std::sync::Mutex<Vec<(usize, usize, usize)>> = std::sync::Mutex::new(Vec::new());
unsafe impl GlobalAlloc for PoolAlloc {
    unsafe fn alloc(&self, l: Layout) -> *mut u8 {
        if l.size() >= BIG {
            if let Ok(mut g) = POOL.lock() {
                if let Some(i) = g.iter().position(|&(_, sz, al)| sz == l.size() && al == l.align()) {
                    let (p, _, _) = g.swap_remove(i);
                    return p as *mut u8;
                }
            }
        }
        System.alloc(l)
    }
    unsafe fn dealloc(&self, p: *mut u8, l: Layout) {
        if l.size() >= BIG {
            if let Ok(mut g) = POOL.lock() {
                if g.len() < 96 {
                    g.push((p as usize, l.size(), l.align()));
                    return;
                }
            }
        }
        System.dealloc(p, l)
    }
}
#[global_allocator]
static GLOBAL: PoolAlloc = PoolAlloc;

/// A logger that is enabled at TRACE and discards everything: the code under test then evaluates the
/// arguments of all its log statements (as it does for a user running with RUST_LOG=trace), so that
/// side effects hidden in them -- e.g. taking a lock -- are exercised too.
struct NullLogger;
impl log::Log for NullLogger {
    fn enabled(&self, _: &log::Metadata) -> bool {
        true
    }
    fn log(&self, record: &log::Record) {
        // format the arguments (that is what evaluates them), drop the text
        let _ = std::hint::black_box(format!("{}", record.args()).len());
    }
    fn flush(&self) {}
}
static NULL_LOGGER: NullLogger = NullLogger;

fn main() {
    let args: Vec<String> = std::env::args().skip(1).collect();
    if args.iter().any(|a| a == "--trace-log") {
        let _ = log::set_logger(&NULL_LOGGER);
        log::set_max_level(log::LevelFilter::Trace);
    }
    if args.is_empty() {
        eprintln!("usage: harness <subcommand> ...");
        std::process::exit(2);
    }
    // panics of the code under test are caught and reported as data; keep stderr quiet
    if std::env::var("VERIF_SHOW_PANICS").is_err() {
        std::panic::set_hook(Box::new(|_| {}));
    }
    let rest = &args[1..];
    match args[0].as_str() {
        "replay" => replay::main(rest),
        "record-games" => records::main(rest),
        "record-trace" => trace::main(rest),
        "search-basic" => search::basic(rest),
        "search-exact" => search::exact(rest),
        "static-eval" => search::static_eval(rest),
        "search-sched" => search::sched(rest),
        "search-native" => search::native(rest),
        "search-seqtrace" => search::seqtrace(rest),
        "record-cache" => cache::main(rest),
        "record-eval" => evalrec::main(rest),
        "perft" => perft::main(rest),
        "cli-count" => perft::cli(rest),
        "geometry" => geometry::replay(rest),
        "record-geometry" => geometry::record(rest),
        "record-game" => game::main(rest),
        "cli-labels" => game::cli_labels(rest),
        "record-transient" => transient::main(rest),
        "fake-stockfish" => frontend::fake_stockfish(),
        other => {
            eprintln!("unknown subcommand {}", other);
            std::process::exit(2);
        }
    }
}
