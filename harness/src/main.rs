//! Conformance harness binding the TLA+ specification in /verif/spec to the real code in /repo.
mod records;
mod replay;
mod util;

fn main() {
    let args: Vec<String> = std::env::args().skip(1).collect();
    if args.is_empty() {
        eprintln!("usage: harness <subcommand> ...");
        std::process::exit(2);
    }
    // panics of the code under test are caught and reported as data; keep stderr quiet
    std::panic::set_hook(Box::new(|_| {}));
    let rest = &args[1..];
    match args[0].as_str() {
        "replay" => replay::main(rest),
        "record-games" => records::main(rest),
        other => {
            eprintln!("unknown subcommand {}", other);
            std::process::exit(2);
        }
    }
}
