//! Stand-in for the external engine of `chess determine-stockfish-elo`: speaks just enough of its
//! protocol ("position startpos moves ..", "go ..", "bestmove ..") for whole games to run through
//! the real bridge.  Every command received and every reply given is appended to $FAKE_SF_LOG, so
//! that the session can be validated against the specification afterwards.  The stand-in only
//! CHOOSES a reply (preferring the moves the bridge must treat specially: promotions incl.
//! under-promotions, en passant, castling); whether the reply named a legal move and whether it was
//! played as that move is judged by Trace_Engine (TBridge), not here.
use crate::util::*;
use chess::board::Board;
use chess::chess_move::chess_move::ChessMove;
use chess::move_generator::MoveGenerator;
use serde_json::json;
use std::io::{BufRead, Write};

pub fn fake_stockfish() {
    let log_path = std::env::var("FAKE_SF_LOG").unwrap_or_else(|_| "/dev/null".to_string());
    let seed: u64 = std::env::var("FAKE_SF_SEED").ok().and_then(|s| s.parse().ok()).unwrap_or(1);
    let mut log = std::fs::OpenOptions::new().create(true).append(true).open(&log_path).unwrap();
    let mut rng = Rng::new(seed);
    let mut gen = MoveGenerator::new();
    let mut moves: Vec<String> = vec![];
    let stdin = std::io::stdin();
    let stdout = std::io::stdout();
    for line in stdin.lock().lines() {
        let line = match line {
            Ok(l) => l,
            Err(_) => break,
        };
        let line = line.trim().to_string();
        if line == "quit" {
            break;
        }
        if let Some(rest) = line.strip_prefix("position startpos moves") {
            moves = rest.split_whitespace().map(|s| s.to_string()).collect();
            writeln!(log, "{}", json!({"pos": moves, "raw": line})).unwrap();
            log.flush().unwrap();
            continue;
        }
        if line.starts_with("go") {
            // rebuild the position from the coordinate strings received
            let mut board = Board::starting_position();
            let mut ok = true;
            for u in &moves {
                let turn = board.turn();
                let cands = gen.generate_moves(&mut board, turn);
                match cands.iter().find(|m| &m.to_uci() == u) {
                    Some(m) => {
                        if m.apply(&mut board).is_err() {
                            ok = false;
                            break;
                        }
                        board.toggle_turn();
                    }
                    None => {
                        ok = false;
                        break;
                    }
                }
            }
            if !ok {
                writeln!(log, "{}", json!({"err": "the received move list could not be followed", "moves": moves})).unwrap();
                log.flush().unwrap();
                break;
            }
            let turn = board.turn();
            let cands = gen.generate_moves(&mut board, turn);
            if cands.is_empty() {
                writeln!(log, "{}", json!({"err": "asked to move in a finished game", "moves": moves})).unwrap();
                log.flush().unwrap();
                break;
            }
            let special: Vec<&ChessMove> = cands
                .iter()
                .filter(|m| matches!(m, ChessMove::PawnPromotion(_) | ChessMove::EnPassant(_) | ChessMove::Castle(_)))
                .collect();
            // pawn double steps next to an enemy pawn invite en passant by the other side; plain pawn
            // pushes head for promotions
            let pawnish: Vec<&ChessMove> = cands
                .iter()
                .filter(|m| {
                    let u = m.to_uci();
                    let b = u.as_bytes();
                    b[0] == b[2] && board.get(m.from_square()).map(|(p, _)| kind_of(p) == 1).unwrap_or(false)
                })
                .collect();
            let pick: &ChessMove = if !special.is_empty() && rng.chance(9, 10) {
                special[rng.below(special.len())]
            } else if !pawnish.is_empty() && rng.chance(1, 3) {
                pawnish[rng.below(pawnish.len())]
            } else {
                &cands[rng.below(cands.len())]
            };
            let u = pick.to_uci();
            writeln!(log, "{}", json!({"reply": u})).unwrap();
            log.flush().unwrap();
            let mut o = stdout.lock();
            writeln!(o, "info depth 1 score cp 0").unwrap();
            writeln!(o, "bestmove {} ponder 0000", u).unwrap();
            o.flush().unwrap();
        }
    }
}
