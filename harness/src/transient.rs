//! C12: boards seen between a move and its undo inside move generation, annotation and search
//! (hook H5), sampled, logged with projection and summaries; validated by Trace_Records ("board").
use crate::util::*;
use chess::alpha_beta_searcher::{alpha_beta_search, SearchContext};
use chess::board::Board;
use chess::move_generator::MoveGenerator;
use chess::verif;
use serde_json::json;
use std::io::Write;
use std::sync::atomic::{AtomicU64, Ordering};
use std::sync::{Arc, Mutex};

/// record-transient <out> --seed N --games G --plies P --one-in K [--seeds file]
pub fn main(args: &[String]) {
    let out_path = &args[0];
    let seed = arg_u64(args, "--seed", 1);
    let games = arg_u64(args, "--games", 10);
    let plies = arg_u64(args, "--plies", 60);
    let one_in = arg_u64(args, "--one-in", 50).max(1);
    let cap = arg_u64(args, "--cap", 20000) as usize;
    let seeds: Vec<Pos> = match arg_val(args, "--seeds") {
        Some(p) => read_ndjson(&p).iter().map(Pos::from_json).collect(),
        None => vec![],
    };
    // the key constants, read black-box exactly as Trace_Tables reads them (base = empty board with all rights)
    let keys = has_flag(args, "--keys");
    let base = Board::new().current_position_hash();
    let mut pc = vec![[0u64; 64]; 12];
    for code in 1..=12u8 {
        let (p, c) = piece_of_code(code);
        for i in 0..64 {
            let mut b = Board::new();
            b.put(common::bitboard::bitboard::Bitboard(1u64 << i), p, c).unwrap();
            pc[(code - 1) as usize][i] = b.current_position_hash() ^ base;
        }
    }
    let mut crk = [0u64; 16];
    for r in 0..16u8 {
        let mut b = Board::new();
        b.lose_castle_rights(15 & !r);
        crk[r as usize] = b.current_position_hash() ^ base;
    }
    let mut epk = [0u64; 64];
    for i in 0..64 {
        let mut b = Board::new();
        b.push_en_passant_target(common::bitboard::bitboard::Bitboard(1u64 << i));
        epk[i] = b.current_position_hash() ^ base;
    }
    let counter = Arc::new(AtomicU64::new(0));
    let sink: Arc<Mutex<Vec<String>>> = Arc::new(Mutex::new(Vec::new()));
    let (c2, s2) = (counter.clone(), sink.clone());
    verif::install_board_observer(Some(Arc::new(move |b: &Board| {
        let n = c2.fetch_add(1, Ordering::Relaxed);
        // every board on which a side does not have exactly one king is forwarded to the specification, the
        // others are sampled
        let kings_wrong = [chess::board::color::Color::White, chess::board::color::Color::Black]
            .iter()
            .any(|c| b.pieces(*c).locate(chess::board::piece::Piece::King).0.count_ones() != 1);
        if keys {
            // C05 on boards between a move and its undo: the key must be the XOR of the constants of what is on the
            // board; the constants that apply are listed, TLC folds them (a board whose key differs is always forwarded)
            let pos = Pos::of_board(b);
            let mut parts: Vec<u64> = vec![base];
            for i in 0..64 {
                if pos.b[i] != 0 {
                    parts.push(pc[(pos.b[i] - 1) as usize][i]);
                }
            }
            parts.push(crk[pos.rights as usize]);
            if pos.ep != 0 {
                parts.push(epk[(pos.ep - 1) as usize]);
            }
            let want = parts.iter().fold(0u64, |a, x| a ^ x);
            if n % one_in == 0 || want != b.current_position_hash() {
                let rec = json!({"t": "boardkey", "obs": obs(b), "parts": parts.iter().map(|x| limbs(*x)).collect::<Vec<_>>()}).to_string();
                let mut g = s2.lock().unwrap();
                if g.len() < cap {
                    g.push(rec);
                }
            }
            return;
        }
        if n % one_in == 0 || kings_wrong {
            let rec = json!({"t": "board", "obs": obs(b), "sum": summaries(b)}).to_string();
            let mut g = s2.lock().unwrap();
            if g.len() < cap {
                g.push(rec);
            }
        }
    })));
    let mut rng = Rng::new(seed);
    let mut gen = MoveGenerator::new();
    for g in 0..games {
        let mut board = if g % 2 == 0 || seeds.is_empty() { Board::starting_position() } else { seeds[rng.below(seeds.len())].setup() };
        for ply in 0..plies {
            let side = board.turn();
            let r = guarded(|| gen.generate_moves_and_lazily_update_chess_move_effects(&mut board, side));
            let moves = match r {
                Ok(m) => m,
                Err(_) => break,
            };
            if moves.is_empty() {
                break;
            }
            if ply % 16 == 5 && board.occupied().count_ones() <= 12 {
                let _ = guarded(|| {
                    let mut ctx = SearchContext::new(2);
                    let _ = alpha_beta_search(&mut ctx, &mut board, &mut gen);
                });
            }
            let m = moves[rng.below(moves.len())].clone();
            if guarded(|| m.apply(&mut board).is_ok()) != Ok(true) {
                break;
            }
            board.toggle_turn();
        }
    }
    // every sparse catalogue position: generation, annotation and a depth-2 search (the rule interactions the
    // catalogue exists for -- pinned en passant, promotions in check, castling through attacks ...)
    for p in seeds.iter() {
        if p.b.iter().filter(|&&x| x != 0).count() > 10 {
            continue;
        }
        let mut board = p.setup();
        let side = board.turn();
        let _ = guarded(|| {
            gen.generate_moves_and_lazily_update_chess_move_effects(&mut board, side);
        });
        let _ = guarded(|| {
            let mut ctx = SearchContext::new(2);
            let _ = alpha_beta_search(&mut ctx, &mut board, &mut gen);
        });
    }
    verif::install_board_observer(None);
    let seen = counter.load(Ordering::Relaxed);
    let recs = sink.lock().unwrap();
    let mut file = std::io::BufWriter::new(std::fs::File::create(out_path).unwrap());
    for r in recs.iter() {
        writeln!(file, "{}", r).unwrap();
    }
    file.flush().unwrap();
    println!("{}", json!({"records": recs.len(), "transient_boards_seen": seen}));
}
