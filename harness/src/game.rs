//! Game-level traces (Game API): typed coordinate pairs and notation strings (C14), engine move
//! selection incl. the opening book (C15), game-over reporting along shuffling games (C17, C16).
use crate::util::*;
use chess::board::Board;
use chess::book::{Book, BookMove};
use chess::chess_move::chess_move::ChessMove;
use chess::evaluate::GameEnding;
use chess::game::game::Game;
use serde_json::{json, Value};
use std::collections::BTreeSet;
use std::io::Write;

fn ending_str(e: &Option<GameEnding>) -> &'static str {
    match e {
        None => "none",
        Some(GameEnding::Checkmate) => "checkmate",
        Some(GameEnding::Stalemate) => "stalemate",
        Some(GameEnding::Draw) => "draw",
    }
}

pub struct GTracer<'a> {
    pub out: &'a mut dyn Write,
    pub events: u64,
}

fn gobs(game: &Game) -> Value {
    let mut o = obs(game.board());
    o["gfm"] = json!(game.fullmove_clock());
    o["last"] = match game.most_recent_move() {
        Some(m) => Mv::of(&m).to_json(),
        None => json!({"k": "-", "f": 0, "t": 0, "p": 0, "c": 0}),
    };
    o
}

impl<'a> GTracer<'a> {
    fn emit(&mut self, mut v: Value, game: &Game) {
        v["obs"] = gobs(game);
        writeln!(self.out, "{}", v).unwrap();
        self.events += 1;
    }
    fn emit_with(&mut self, mut v: Value, o: Value) {
        v["obs"] = o;
        writeln!(self.out, "{}", v).unwrap();
        self.events += 1;
    }
    pub fn reset(&mut self, game: &Game) {
        self.emit(json!({"ev": "GReset"}), game);
    }
    pub fn toggle(&mut self, game: &mut Game) {
        game.board_mut().toggle_turn();
        self.emit(json!({"ev": "GToggle"}), game);
    }
    pub fn ending(&mut self, game: &mut Game) -> Option<String> {
        match guarded(|| game.check_game_over_for_current_turn()) {
            Ok(e) => {
                let s = ending_str(&e).to_string();
                self.emit(json!({"ev": "GEnding", "res": s}), game);
                Some(s)
            }
            Err(_) => None,
        }
    }
    /// submit coordinate pairs; refused ones are batched, an accepted one ends the run.
    /// returns Some(move) if one was accepted, None if all were refused; Err on panic.
    pub fn coords(&mut self, game: &mut Game, pairs: &[(u8, u8)]) -> Result<Option<ChessMove>, String> {
        let mut batch: Vec<Value> = vec![];
        for &(f, t) in pairs {
            let pre = gobs(game);
            let r = guarded(|| game.apply_chess_move_by_from_to_coordinates(bb(f as u32), bb(t as u32)));
            match r {
                Err(p) => return Err(p),
                Ok(Err(_)) => batch.push(json!([f, t])),
                Ok(Ok(m)) => {
                    if !batch.is_empty() {
                        // the refused pairs before it are logged with the state just before this acceptance
                        self.emit_with(json!({"ev": "CoordBatch", "pairs": batch}), pre);
                    }
                    self.emit(json!({"ev": "Coord", "f": f, "t": t, "res": Mv::of(&m).to_json()}), game);
                    return Ok(Some(m));
                }
            }
            if batch.len() >= 512 {
                self.emit(json!({"ev": "CoordBatch", "pairs": batch}), game);
                batch = vec![];
            }
        }
        if !batch.is_empty() {
            self.emit(json!({"ev": "CoordBatch", "pairs": batch}), game);
        }
        Ok(None)
    }
    pub fn labels(&mut self, game: &mut Game, labels: &[String]) -> Result<Option<ChessMove>, String> {
        let mut batch: Vec<Value> = vec![];
        for s in labels {
            let pre = gobs(game);
            let r = guarded(|| game.apply_chess_move_from_raw_algebraic_notation(s.clone()));
            match r {
                Err(p) => return Err(p),
                Ok(Err(_)) => batch.push(json!(s)),
                Ok(Ok(m)) => {
                    if !batch.is_empty() {
                        self.emit_with(json!({"ev": "LabelBatch", "labels": batch}), pre);
                    }
                    self.emit(json!({"ev": "Label", "s": s, "res": Mv::of(&m).to_json()}), game);
                    return Ok(Some(m));
                }
            }
        }
        if !batch.is_empty() {
            self.emit(json!({"ev": "LabelBatch", "labels": batch}), game);
        }
        Ok(None)
    }
    /// the labelled move list as the Game hands it to its front ends
    pub fn glabels(&mut self, game: &mut Game) -> bool {
        match guarded(|| game.enumerated_candidate_moves()) {
            Ok(e) => {
                let labels: Vec<Value> = e.iter().map(|(m, t)| json!([Mv::of(m).to_json(), t])).collect();
                self.emit(json!({"ev": "GLabels", "labels": labels}), game);
                true
            }
            Err(_) => false,
        }
    }
    pub fn engine_move(&mut self, game: &mut Game, book: bool) -> bool {
        let r = guarded(|| if book { game.select_waterfall_book_then_alpha_beta_best_move() } else { game.select_alpha_beta_best_move() });
        let res = match r {
            Ok(Ok(m)) => json!({"ok": true, "m": Mv::of(&m).to_json()}),
            Ok(Err(e)) => json!({"ok": false, "err": format!("{}", e)}),
            Err(p) => json!({"ok": false, "err": format!("panic: {}", p)}),
        };
        let panicked = res["err"].as_str().map(|s| s.starts_with("panic")).unwrap_or(false);
        self.emit(json!({"ev": "EngineMove", "book": book, "res": res}), game);
        !panicked
    }
}

/// near-miss strings derived from the labels the code itself prints
fn near_misses(labels: &[String], prev: &[String], rng: &mut Rng) -> Vec<String> {
    let mut out: BTreeSet<String> = BTreeSet::new();
    for l in labels {
        if l.contains('x') {
            out.insert(l.replacen('x', "", 1));
        } else if l.len() >= 2 && !l.starts_with('O') {
            // add a capture mark before the destination
            let cut = l.find(|c: char| ('a'..='h').contains(&c)).unwrap_or(0);
            let mut s = l.clone();
            s.insert(cut, 'x');
            out.insert(s);
        }
        if l.ends_with('+') || l.ends_with('#') {
            out.insert(l[..l.len() - 1].to_string());
            out.insert(format!("{}{}", &l[..l.len() - 1], if l.ends_with('+') { "#" } else { "+" }));
        } else {
            out.insert(format!("{}+", l));
            out.insert(format!("{}#", l));
        }
        if let Some(i) = l.find('=') {
            out.insert(l[..i].to_string());
            out.insert(format!("{}=K", &l[..i]));
        }
        let cs: Vec<char> = l.chars().collect();
        if cs.len() >= 3 && "NBRQK".contains(cs[0]) {
            // add / change / drop disambiguation
            let rest: String = cs[1..].iter().collect();
            let f = (b'a' + rng.below(8) as u8) as char;
            let r = (b'1' + rng.below(8) as u8) as char;
            out.insert(format!("{}{}{}", cs[0], f, rest));
            out.insert(format!("{}{}{}", cs[0], r, rest));
            if cs.len() >= 4 && (('a'..='h').contains(&cs[1]) || ('1'..='8').contains(&cs[1])) && cs[2] != 'x' && !('1'..='8').contains(&cs[2]) {
                out.insert(format!("{}{}", cs[0], cs[2..].iter().collect::<String>()));
            }
            // another piece letter
            let other = ['N', 'B', 'R', 'Q', 'K'][rng.below(5)];
            out.insert(format!("{}{}", other, rest));
            out.insert(rest.clone());
        } else if cs.len() == 2 {
            out.insert(format!("N{}", l));
            out.insert(format!("{}{}", cs[0], (b'1' + rng.below(8) as u8) as char));
        }
    }
    for p in prev {
        out.insert(p.clone());
    }
    for junk in ["", "e9", "i4", "O-O-O-O", "0-0", "o-o", "Pe4", "e2e4", "Ke1e2", "xx", "=Q", "+", "Nb1c3", "e4 ", " e4", "E4"] {
        out.insert(junk.to_string());
    }
    // whatever is really a current label is removed by the caller
    out.into_iter().collect()
}

fn typed_game(tr: &mut GTracer, rng: &mut Rng, start: Board, plies: usize, full_every: usize, by_label_share: u64) {
    let mut game = Game::from_board(start, 1);
    tr.reset(&game);
    let mut prev_labels: Vec<String> = vec![];
    for ply in 0..plies {
        let enumerated = match guarded(|| game.enumerated_candidate_moves()) {
            Ok(e) => e,
            Err(_) => return,
        };
        if enumerated.is_empty() {
            return;
        }
        if ply % 3 == 0 && !tr.glabels(&mut game) {
            return;
        }
        let labels: Vec<String> = enumerated.iter().map(|x| x.1.clone()).collect();
        let legal_pairs: BTreeSet<(u8, u8)> = enumerated.iter().map(|(m, _)| (sq_of(m.from_square()) as u8, sq_of(m.to_square()) as u8)).collect();
        // (1) coordinate pairs the code's own generator does not list: all 4096 now and then, else a sample + near ones
        let mut pairs: Vec<(u8, u8)> = vec![];
        if full_every > 0 && ply % full_every == 0 {
            for f in 1..=64u8 {
                for t in 1..=64u8 {
                    if !legal_pairs.contains(&(f, t)) {
                        pairs.push((f, t));
                    }
                }
            }
        } else {
            for &(f, t) in legal_pairs.iter() {
                pairs.push((t, f));
                pairs.push((f, ((t as usize + 7) % 64 + 1) as u8));
                pairs.push((((f as usize + 8) % 64 + 1) as u8, t));
            }
            for _ in 0..60 {
                pairs.push((1 + rng.below(64) as u8, 1 + rng.below(64) as u8));
            }
            pairs.retain(|p| !legal_pairs.contains(p));
        }
        match tr.coords(&mut game, &pairs) {
            Err(_) => return,
            Ok(Some(_)) => {
                // the code accepted a pair its generator does not list: the event is logged; go on from there
                tr.toggle(&mut game);
                prev_labels = labels;
                continue;
            }
            Ok(None) => {}
        }
        // (2) near-miss notation strings
        let cur: BTreeSet<&String> = labels.iter().collect();
        let misses: Vec<String> = near_misses(&labels, &prev_labels, rng).into_iter().filter(|s| !cur.contains(s)).collect();
        match tr.labels(&mut game, &misses) {
            Err(_) => return,
            Ok(Some(_)) => {
                tr.toggle(&mut game);
                prev_labels = labels;
                continue;
            }
            Ok(None) => {}
        }
        // (3) one legal input, by coordinates or by notation; special moves preferred now and then
        let special: Vec<usize> = (0..enumerated.len()).filter(|&i| { let x = Mv::of(&enumerated[i].0); x.k != 'S' || x.c != 0 }).collect();
        let i = if !special.is_empty() && rng.chance(2, 5) { special[rng.below(special.len())] } else { rng.below(enumerated.len()) };
        let (m, label) = enumerated[i].clone();
        let r = if rng.chance(by_label_share, 100) {
            tr.labels(&mut game, &[label])
        } else {
            tr.coords(&mut game, &[(sq_of(m.from_square()) as u8, sq_of(m.to_square()) as u8)])
        };
        match r {
            Err(_) => return,
            Ok(None) => {
                // a move the code itself lists was refused: logged as a refused batch; the game cannot go on this way
                return;
            }
            Ok(Some(_)) => {}
        }
        tr.toggle(&mut game);
        prev_labels = labels;
    }
}

/// a shuffling game through the Game API, check_game_over asked after every hand-over
fn shuffle_game(tr: &mut GTracer, start: Board, cycle: &[&str], rounds: usize) {
    let mut game = Game::from_board(start, 1);
    tr.reset(&game);
    if tr.ending(&mut game).is_none() {
        return;
    }
    for _ in 0..rounds {
        for u in cycle {
            let c: Vec<char> = u.chars().collect();
            let f = (c[0] as u8 - b'a') + (c[1] as u8 - b'1') * 8 + 1;
            let t = (c[2] as u8 - b'a') + (c[3] as u8 - b'1') * 8 + 1;
            match tr.coords(&mut game, &[(f, t)]) {
                Ok(Some(_)) => {}
                _ => return,
            }
            tr.toggle(&mut game);
            match tr.ending(&mut game) {
                None => return,
                Some(s) => {
                    if s != "none" {
                        return;
                    }
                }
            }
        }
    }
}

/// shuffles after a declined en passant: the double step is played once (so that the game's generator has
/// answered for the position WITH the right), then the kings shuffle and the same placement recurs without it
pub const EP_DECLINED: [(&str, &str, &str); 2] = [
    ("7k/3p4/8/4P3/8/8/8/4K3 b - -", "d7d5", "e1e2 h8g8 e2e1 g8h8"),
    ("4k3/8/8/8/3p4/8/4P3/7K w - -", "e2e4", "e8e7 h1g1 e7e8 g1h1"),
];

pub const SHUFFLES: [(&str, &str); 4] = [
    ("rnbqkbnr/pppppppp/8/8/8/8/PPPPPPPP/RNBQKBNR w KQkq -", "g1f3 g8f6 f3g1 f6g8"),
    ("4k3/8/8/8/8/8/8/4K2R w - -", "h1g1 e8d8 g1h1 d8e8"),
    ("4k2r/8/8/8/8/8/8/4K3 b - -", "h8g8 e1d1 g8h8 d1e1"),
    ("r3k2r/8/8/8/8/8/8/R3K2R w KQkq -", "a1b1 a8b8 b1a1 b8a8"),
];

fn book_children(book: &Book, line: &[(u8, u8)]) -> Vec<(u8, u8)> {
    let bm: Vec<BookMove> = line.iter().map(|&(f, t)| BookMove::new(bb(f as u32), bb(t as u32))).collect();
    let mut next: Vec<(u8, u8)> = book.get_next_moves(bm).iter().map(|(m, _)| (sq_of(m.from_square()) as u8, sq_of(m.to_square()) as u8)).collect();
    next.sort();
    next
}

fn book_leaves(book: &Book, line: &mut Vec<(u8, u8)>, out: &mut Vec<Vec<(u8, u8)>>) {
    let next = book_children(book, line);
    if next.is_empty() {
        out.push(line.clone());
        return;
    }
    for n in next {
        line.push(n);
        book_leaves(book, line, out);
        line.pop();
    }
}

/// Every root-to-leaf line of the COMPILED book is played through the Game API from the standard
/// start; at every node not seen before the outgoing edges are logged (BookEdges) and the engine is
/// asked for its move several times (the book choice is random).
fn book_walk(tr: &mut GTracer, book: &Book, reps_per_child: usize) -> usize {
    let mut leaves = vec![];
    book_leaves(book, &mut vec![], &mut leaves);
    let mut seen: BTreeSet<Vec<(u8, u8)>> = BTreeSet::new();
    let mut nodes = 0;
    for leaf in leaves.iter() {
        let mut game = Game::new(1);
        tr.reset(&game);
        for i in 0..=leaf.len() {
            let prefix = leaf[..i].to_vec();
            if seen.insert(prefix.clone()) {
                nodes += 1;
                let kids = book_children(book, &prefix);
                let edges: Vec<Value> = kids.iter().map(|&(f, t)| json!([f, t])).collect();
                tr.emit(json!({"ev": "BookEdges", "edges": edges}), &game);
                for _ in 0..(reps_per_child * kids.len().max(1)) {
                    if !tr.engine_move(&mut game, true) {
                        break;
                    }
                }
            }
            if i < leaf.len() {
                match tr.coords(&mut game, &[leaf[i]]) {
                    Ok(Some(_)) => tr.toggle(&mut game),
                    _ => break,
                }
            }
        }
    }
    nodes
}

/// Odds games: the standard start with one man removed is SUPPLIED to Game::from_board; book lines are
/// followed as long as they are playable there.  The history then coincides with a book prefix while
/// some book continuations cannot be played (the piece is missing): the engine must still answer.
fn odds_book(tr: &mut GTracer, book: &Book, rng: &mut Rng, reps: usize, max_nodes: usize) -> usize {
    let mut leaves = vec![];
    book_leaves(book, &mut vec![], &mut leaves);
    let removed = [6usize, 5, 57, 61, 1, 62, 11, 12, 51, 52, 13, 53]; // g1 f1 b8 f8 b1 g8 d2 e2 d7 e7 f2 f7 (0-based)
    let mut nodes = 0;
    for (oi, &sq) in removed.iter().enumerate() {
        let mut pos = Pos::of_board(&Board::starting_position());
        pos.b[sq] = 0;
        let mut seen: BTreeSet<Vec<(u8, u8)>> = BTreeSet::new();
        // a few random book lines per odds position
        for _ in 0..4 {
            if nodes >= max_nodes {
                return nodes;
            }
            let leaf = &leaves[rng.below(leaves.len())];
            let mut game = Game::from_board(pos.setup(), 1);
            tr.reset(&game);
            for i in 0..=leaf.len() {
                let prefix = leaf[..i].to_vec();
                if seen.insert(prefix.clone()) || i == 0 {
                    nodes += 1;
                    for _ in 0..reps {
                        if !tr.engine_move(&mut game, true) {
                            break;
                        }
                    }
                }
                if i < leaf.len() {
                    match tr.coords(&mut game, &[leaf[i]]) {
                        Ok(Some(_)) => tr.toggle(&mut game),
                        _ => break, // the book move is not playable in the odds game: the line ends here
                    }
                }
            }
        }
        let _ = oi;
    }
    nodes
}

/// record-game <out> --scenario typed|shuffle|book|offbook --seed N --games G --plies P
const MATE_IN_ONE: [&str; 4] = [
    "6k1/5ppp/8/8/8/8/8/R5K1 w - -",
    "rnbqkbnr/pppp1ppp/8/4p3/6P1/5P2/PPPPP2P/RNBQKBNR b KQkq -",
    "7k/8/5KQ1/8/8/8/8/8 w - -",
    "6K1/8/5kq1/8/8/8/8/8 b - -",
];
const TRIANGLES: [(&str, &str); 4] = [
    ("rnbqkbnr/pppppppp/8/8/8/8/PPPPPPPP/RNBQKBNR w KQkq -", "e2e3 g8f6 f1d3 f6g8 d3e2 g8f6 e2f1 f6g8 d2d4 g8f6"),
    ("4k3/8/8/8/8/8/8/4K3 w - -", "e1d1 e8d8 d1d2 d8e8 d2e1 e8d8 e1d1 d8e8 d1d2 e8d8 d2e1"),
    ("4k3/8/8/8/8/8/8/3QK3 w - -", "d1d2 e8f8 d2d3 f8e8 d3d1 e8f8 d1d2 f8e8 d2d3 e8f8 d3d1 f8e8"),
    ("r3k2r/pppppppp/8/8/8/8/PPPPPPPP/R3K2R b KQkq -", "a8b8 a1b1 b8c8 b1a1 c8a8 a1b1 a8b8 b1a1"),
];

pub fn main(args: &[String]) {
    let out_path = &args[0];
    let seed = arg_u64(args, "--seed", 1);
    let games = arg_u64(args, "--games", 4) as usize;
    let plies = arg_u64(args, "--plies", 40) as usize;
    let full_every = arg_u64(args, "--full-every", 10) as usize;
    let scenario = arg_val(args, "--scenario").unwrap_or("typed".into());
    let seeds: Vec<Pos> = match arg_val(args, "--seeds") {
        Some(p) => read_ndjson(&p).iter().map(Pos::from_json).collect(),
        None => vec![],
    };
    let mut file = std::io::BufWriter::new(std::fs::File::create(out_path).unwrap());
    writeln!(file, "{}", crate::trace::tables_record()).unwrap();
    let mut rng = Rng::new(seed);
    let mut tr = GTracer { out: &mut file, events: 0 };
    let mut histories = 0;
    match scenario.as_str() {
        "typed" => {
            for g in 0..games {
                let start = if g % 4 == 3 {
                    // a quiet mating move is available and the half-move clock stands at 98 or 99
                    let fen = MATE_IN_ONE[rng.below(MATE_IN_ONE.len())];
                    crate::trace::parse_fen(fen).setup_clocks(98 + rng.below(2) as u64, 60)
                } else if g % 2 == 0 || seeds.is_empty() {
                    Board::starting_position()
                } else {
                    seeds[rng.below(seeds.len())].setup()
                };
                typed_game(&mut tr, &mut rng, start, plies, full_every, 50);
                histories += 1;
            }
        }
        "typedseeds" => {
            // every catalogue position: ALL 4096 coordinate pairs, near-miss notation and one legal input
            let nshards = arg_u64(args, "--nshards", 1) as usize;
            let shard = (seed % 1000) as usize % nshards.max(1);
            for (i, p) in seeds.iter().enumerate() {
                if i % nshards.max(1) != shard {
                    continue;
                }
                typed_game(&mut tr, &mut rng, p.setup(), 2, 1, 50);
                histories += 1;
            }
        }
        "shuffle" => {
            for (fen, cyc) in SHUFFLES.iter() {
                let c: Vec<&str> = cyc.split_whitespace().collect();
                shuffle_game(&mut tr, crate::trace::parse_fen(fen).setup(), &c, 3);
                histories += 1;
            }
        }
        "book" => {
            let book = Book::default();
            let reps = arg_u64(args, "--reps", 3) as usize;
            histories = book_walk(&mut tr, &book, reps);
        }
        "oddsbook" => {
            let book = Book::default();
            let reps = arg_u64(args, "--reps", 4) as usize;
            histories = odds_book(&mut tr, &book, &mut rng, reps, arg_u64(args, "--max-nodes", 80) as usize);
        }
        "triangle" => {
            // the same placement comes back with the OTHER side to move: the labelled list must be that side's
            for (fen, mv) in TRIANGLES.iter() {
                let mut game = Game::from_board(crate::trace::parse_fen(fen).setup(), 1);
                tr.reset(&game);
                if !tr.glabels(&mut game) {
                    continue;
                }
                for u in mv.split_whitespace() {
                    let ch: Vec<char> = u.chars().collect();
                    let f = (ch[0] as u8 - b'a') + (ch[1] as u8 - b'1') * 8 + 1;
                    let t = (ch[2] as u8 - b'a') + (ch[3] as u8 - b'1') * 8 + 1;
                    match tr.coords(&mut game, &[(f, t)]) {
                        Ok(Some(_)) => tr.toggle(&mut game),
                        _ => break,
                    }
                    if !tr.glabels(&mut game) {
                        break;
                    }
                }
                histories += 1;
            }
        }
        "longgame" => {
            // "after any legal history": long capture-free shuffles (the half-move clock passes the draw
            // threshold, positions recur three times and more) with the engine asked at every ply
            let rounds = arg_u64(args, "--rounds", 30) as usize;
            let all: Vec<(&str, &str, &str)> = SHUFFLES.iter().map(|(f, c)| (*f, "", *c)).chain(EP_DECLINED.iter().cloned()).collect();
            for (gi, (fen, prefix, cyc)) in all.iter().enumerate() {
                let c: Vec<&str> = cyc.split_whitespace().collect();
                // (plain shuffles at depth 1 / 2, the declined-en-passant ones at depth 2 / 3)
                let depth = if prefix.is_empty() { 1 + (gi % 2) as u8 } else { 2 + (gi % 2) as u8 };
                let mut game = Game::from_board(crate::trace::parse_fen(fen).setup(), depth);
                tr.reset(&game);
                let mut ply = 0;
                let mut ok = true;
                for u in prefix.split_whitespace() {
                    // the engine answers for the position before and after the double step
                    if !tr.engine_move(&mut game, false) {
                        ok = false;
                        break;
                    }
                    let ch: Vec<char> = u.chars().collect();
                    let f = (ch[0] as u8 - b'a') + (ch[1] as u8 - b'1') * 8 + 1;
                    let t = (ch[2] as u8 - b'a') + (ch[3] as u8 - b'1') * 8 + 1;
                    match tr.coords(&mut game, &[(f, t)]) {
                        Ok(Some(_)) => tr.toggle(&mut game),
                        _ => {
                            ok = false;
                            break;
                        }
                    }
                    if !tr.engine_move(&mut game, false) {
                        ok = false;
                        break;
                    }
                }
                if !ok {
                    continue;
                }
                let rounds = if prefix.is_empty() { rounds } else { rounds.min(6) };
                'g: for _ in 0..rounds {
                    for u in &c {
                        let ch: Vec<char> = u.chars().collect();
                        let f = (ch[0] as u8 - b'a') + (ch[1] as u8 - b'1') * 8 + 1;
                        let t = (ch[2] as u8 - b'a') + (ch[3] as u8 - b'1') * 8 + 1;
                        match tr.coords(&mut game, &[(f, t)]) {
                            Ok(Some(_)) => tr.toggle(&mut game),
                            _ => break 'g,
                        }
                        ply += 1;
                        // the game's own verdict, asked at every ply as the game loops do (from ply 100 on the
                        // move-count draw is due -- on positions the game has been asked about before)
                        if tr.ending(&mut game).is_none() {
                            break 'g;
                        }
                        // every ply near the interesting boundaries, every fourth elsewhere
                        if ply <= 14 || (ply >= 96 && ply <= 104) || ply % 4 == 1 {
                            if !tr.engine_move(&mut game, true) || !tr.engine_move(&mut game, false) {
                                break 'g;
                            }
                        }
                    }
                }
                histories += 1;
            }
        }
        "offbook" => {
            // supplied boards and random continuations: the engine must still answer with a legal move
            for g in 0..games {
                let start = if g % 3 == 2 {
                    // a supplied position with BLACK to move in which the book's first moves are legal -- for White
                    let fens = ["rnbqkbnr/pppppppp/8/8/8/8/PPPPPPPP/RNBQKBNR b KQkq -", "rnbqkb1r/pppppppp/5n2/8/8/8/PPPPPPPP/RNBQKBNR b KQkq -",
                                "r1bqkbnr/pppppppp/2n5/8/8/5N2/PPPPPPPP/RNBQKB1R b KQkq -"];
                    crate::trace::parse_fen(fens[rng.below(fens.len())]).setup()
                } else if seeds.is_empty() {
                    Board::starting_position()
                } else {
                    seeds[rng.below(seeds.len())].setup()
                };
                let mut game = Game::from_board(start, 1 + (g % 2) as u8);
                tr.reset(&game);
                for _ in 0..plies {
                    if !tr.engine_move(&mut game, true) {
                        break;
                    }
                    if !tr.engine_move(&mut game, false) {
                        break;
                    }
                    let en = match guarded(|| game.enumerated_candidate_moves()) {
                        Ok(e) => e,
                        Err(_) => break,
                    };
                    if en.is_empty() {
                        break;
                    }
                    let (m, _) = en[rng.below(en.len())].clone();
                    match tr.coords(&mut game, &[(sq_of(m.from_square()) as u8, sq_of(m.to_square()) as u8)]) {
                        Ok(Some(_)) => tr.toggle(&mut game),
                        _ => break,
                    }
                }
                histories += 1;
            }
        }
        _ => {
            eprintln!("unknown scenario");
            std::process::exit(2);
        }
    }
    let n = tr.events;
    drop(tr);
    file.flush().unwrap();
    println!("{}", json!({"events": n, "histories": histories}));
}

/// cli-labels <scripts.json>: for every scripted line (UCI moves from the standard start) the label the
/// engine itself prints for each move (Game::enumerated_candidate_moves), in order.
pub fn cli_labels(args: &[String]) {
    let scripts: Value = serde_json::from_str(&std::fs::read_to_string(&args[0]).unwrap()).unwrap();
    let mut out = vec![];
    for sc in scripts.as_array().unwrap() {
        let mut game = Game::new(1);
        let mut labels = vec![];
        for u in sc["moves"].as_array().unwrap() {
            let u = u.as_str().unwrap();
            let en = game.enumerated_candidate_moves();
            match en.iter().find(|(m, _)| m.to_uci() == u) {
                Some((m, label)) => {
                    labels.push(json!({"uci": u, "label": label}));
                    let m = m.clone();
                    if game.apply_chess_move(m).is_err() {
                        break;
                    }
                    game.board_mut().toggle_turn();
                }
                None => {
                    labels.push(json!({"uci": u, "label": null}));
                    break;
                }
            }
        }
        out.push(json!({"name": sc["name"], "plies": labels}));
    }
    println!("{}", json!({"scripts": out}));
}
