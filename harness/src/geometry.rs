//! C11: attack geometry.  B1: replay TLC's complete enumeration (Oracle_Geometry) against
//! MoveGenerator::get_attack_targets; B2: random full-board occupancies logged for Trace_Records.
use crate::util::*;
use chess::board::color::Color;
use chess::board::piece::Piece;
use chess::board::Board;
use chess::move_generator::MoveGenerator;
use serde_json::{json, Value};
use std::collections::BTreeSet;
use std::io::Write;
use std::sync::Mutex;

fn piece_of(kind: &str) -> Piece {
    match kind {
        "R" => Piece::Rook,
        "B" => Piece::Bishop,
        "Q" => Piece::Queen,
        "N" => Piece::Knight,
        _ => Piece::King,
    }
}

fn attack_of(gen: &mut MoveGenerator, kind: &str, sq: u32, blockers: &[u32], colour: Color, blocker_piece: Piece) -> Result<Vec<u32>, String> {
    guarded(|| {
        let mut b = Board::new();
        b.put(bb(sq), piece_of(kind), colour).unwrap();
        for &o in blockers {
            b.put(bb(o), blocker_piece, colour.opposite()).unwrap();
        }
        squares_of(gen.get_attack_targets(&b, colour))
    })
}

/// geometry <tlc-out> [--threads N]
pub fn replay(args: &[String]) {
    let recs = read_tlc_records(&args[0]);
    let threads = arg_u64(args, "--threads", 16) as usize;
    let bad: Mutex<Vec<Value>> = Mutex::new(vec![]);
    let nbad = Mutex::new(0u64);
    let evals = Mutex::new(0u64);
    std::thread::scope(|s| {
        for tid in 0..threads {
            let recs = &recs;
            let bad = &bad;
            let nbad = &nbad;
            let evals = &evals;
            s.spawn(move || {
                // a generator whose attack cache cannot confuse two boards: one per case would be too slow,
                // so the cache is bypassed by using a fresh small generator every 1 case via capacity and
                // distinct hashes -- boards differ in placement, so the key differs (C05), but to keep C11
                // independent of the key a new generator is built for every case
                let mut i = tid;
                let mut n = 0u64;
                while i < recs.len() {
                    let a = recs[i].as_array().unwrap();
                    let kind = a[0].as_str().unwrap();
                    let sq = a[1].as_u64().unwrap() as u32;
                    let occ: Vec<u32> = a[2].as_array().unwrap().iter().map(|x| x.as_u64().unwrap() as u32).collect();
                    let want: BTreeSet<u32> = a[3].as_array().unwrap().iter().map(|x| x.as_u64().unwrap() as u32).collect();
                    for colour in [Color::White, Color::Black] {
                        // blockers must not be pawns on the back ranks / must not attack: use knights? a knight
                        // attacks squares too, but only the slider's colour is asked for
                        let mut gen = MoveGenerator::with_cache_capacity(4);
                        n += 1;
                        match attack_of(&mut gen, kind, sq, &occ, colour, Piece::Knight) {
                            Err(p) => {
                                *nbad.lock().unwrap() += 1;
                                let mut g = bad.lock().unwrap();
                                if g.len() < 40 {
                                    g.push(json!({"what": "panic in get_attack_targets", "kind": kind, "sq": sq, "occ": occ, "panic": p}));
                                }
                            }
                            Ok(got) => {
                                let got: BTreeSet<u32> = got.into_iter().collect();
                                if got != want {
                                    *nbad.lock().unwrap() += 1;
                                    let mut g = bad.lock().unwrap();
                                    if g.len() < 40 {
                                        g.push(json!({"what": "attack set differs from ray walking", "kind": kind, "sq": sq, "occ": occ,
                                            "colour": if colour == Color::White { "white" } else { "black" },
                                            "got": got.iter().collect::<Vec<_>>(), "want": want.iter().collect::<Vec<_>>()}));
                                    }
                                }
                            }
                        }
                    }
                    i += threads;
                }
                *evals.lock().unwrap() += n;
            });
        }
    });
    println!("{}", json!({"records": recs.len(), "evaluations": *evals.lock().unwrap(), "violations": *nbad.lock().unwrap(), "mismatches": *bad.lock().unwrap()}));
}

/// record-geometry <out> --seed N --cases K : random boards with one slider/leaper and random other pieces
pub fn record(args: &[String]) {
    let out_path = &args[0];
    let seed = arg_u64(args, "--seed", 1);
    let cases = arg_u64(args, "--cases", 2000);
    let mut rng = Rng::new(seed);
    let mut file = std::io::BufWriter::new(std::fs::File::create(out_path).unwrap());
    let mut n = 0;
    for i in 0..cases {
        let kind = ["R", "B", "Q", "R", "B", "Q", "N", "K"][rng.below(8)];
        let sq = 1 + rng.below(64) as u32;
        let colour = if rng.chance(1, 2) { Color::White } else { Color::Black };
        let density = [2, 6, 12, 24, 40][rng.below(5)];
        let mut occ: BTreeSet<u32> = BTreeSet::new();
        for _ in 0..density {
            let o = 1 + rng.below(64) as u32;
            if o != sq {
                occ.insert(o);
            }
        }
        let occv: Vec<u32> = occ.iter().cloned().collect();
        let blocker = [Piece::Knight, Piece::Rook, Piece::Bishop, Piece::Queen][rng.below(4)];
        let mut gen = MoveGenerator::with_cache_capacity(4);
        // only the slider's own colour is asked for; the others are all of the opposite colour
        match attack_of(&mut gen, kind, sq, &occv, colour, blocker) {
            Ok(att) => {
                if kind == "N" || kind == "K" {
                    writeln!(file, "{}", json!({"t": "leaper", "kind": kind, "sq": sq, "att": att})).unwrap();
                } else {
                    writeln!(file, "{}", json!({"t": "attack", "kind": kind, "sq": sq, "occ": occv, "att": att})).unwrap();
                }
            }
            Err(p) => writeln!(file, "{}", json!({"t": "panic-geometry", "pos": {"b": vec![0; 64], "turn": 1, "rights": 0, "ep": 0}, "where": format!("get_attack_targets {} {} {}", kind, sq, p)})).unwrap(),
        }
        n += 1;
        let _ = i;
    }
    // crowded boards: several leapers and sliders of one colour among many of their own men (a leaper
    // whose every target square is taken by its own side included); the whole attack map is logged
    let crowded = arg_u64(args, "--crowded", cases / 2);
    for _ in 0..crowded {
        let colour = if rng.chance(1, 2) { Color::White } else { Color::Black };
        let mut b = [0u8; 64];
        let put = |b: &mut [u8; 64], sq: usize, p: Piece, c: Color| {
            if b[sq] == 0 && !(matches!(p, Piece::Pawn) && (sq < 8 || sq >= 56)) {
                b[sq] = code(p, c);
                true
            } else {
                false
            }
        };
        put(&mut b, rng.below(64), Piece::King, colour);
        loop {
            if put(&mut b, rng.below(64), Piece::King, colour.opposite()) {
                break;
            }
        }
        let knights = 2 + rng.below(4);
        let mut ksq = vec![];
        for _ in 0..knights {
            let q = rng.below(64);
            if put(&mut b, q, Piece::Knight, colour) {
                ksq.push(q);
            }
        }
        // box some of the knights in with their own men
        for &q in &ksq {
            if rng.chance(1, 2) {
                let (f, r) = ((q % 8) as i32, (q / 8) as i32);
                for (df, dr) in [(1, 2), (2, 1), (-1, 2), (-2, 1), (1, -2), (2, -1), (-1, -2), (-2, -1)] {
                    let (ff, rr) = (f + df, r + dr);
                    if ff >= 0 && ff < 8 && rr >= 0 && rr < 8 && !rng.chance(1, 12) {
                        let p = [Piece::Pawn, Piece::Pawn, Piece::Bishop, Piece::Rook, Piece::Knight][rng.below(5)];
                        let t = (rr * 8 + ff) as usize;
                        if !put(&mut b, t, p, colour) {
                            put(&mut b, t, Piece::Bishop, colour);
                        }
                    }
                }
            }
        }
        for _ in 0..rng.below(10) {
            let p = [Piece::Pawn, Piece::Bishop, Piece::Rook, Piece::Queen, Piece::Knight][rng.below(5)];
            let c = if rng.chance(1, 2) { colour } else { colour.opposite() };
            put(&mut b, rng.below(64), p, c);
        }
        let r = guarded(|| {
            let mut board = Board::new();
            for q in 0..64 {
                if b[q] != 0 {
                    let (p, c) = piece_of_code(b[q]);
                    board.put(bb(q as u32 + 1), p, c).unwrap();
                }
            }
            let mut gen = MoveGenerator::with_cache_capacity(4);
            squares_of(gen.get_attack_targets(&board, colour))
        });
        let bv: Vec<u8> = b.to_vec();
        match r {
            Ok(att) => writeln!(file, "{}", json!({"t": "attackmap", "b": bv, "white": colour == Color::White, "att": att})).unwrap(),
            Err(p) => writeln!(file, "{}", json!({"t": "panic-geometry", "pos": {"b": bv, "turn": 1, "rights": 0, "ep": 0}, "where": format!("get_attack_targets on a crowded board: {}", p)})).unwrap(),
        }
        n += 1;
    }
    file.flush().unwrap();
    println!("{}", json!({"records": n}));
}
