//! Shared projection / set-up code of the conformance harness.
//!
//! Encoding (identical to the TLA+ modules): squares 1..64 (a1 = 1), pieces 0 empty,
//! 1..6 white P N B R Q K, 7..12 black, turn 1 = white, rights WK=8 BK=4 WQ=2 BQ=1,
//! move = [kind "S"|"P"|"E"|"C", from, to, promotion kind, captured kind].
use chess::board::color::Color;
use chess::board::piece::Piece;
use chess::board::Board;
use chess::chess_move::capture::Capture;
use chess::chess_move::castle::CastleChessMove;
use chess::chess_move::chess_move::ChessMove;
use chess::chess_move::chess_move_effect::ChessMoveEffect;
use chess::chess_move::en_passant::EnPassantChessMove;
use chess::chess_move::pawn_promotion::PawnPromotionChessMove;
use chess::chess_move::standard::StandardChessMove;
use common::bitboard::bitboard::Bitboard;
use serde_json::{json, Value};
use std::panic::{catch_unwind, AssertUnwindSafe};

pub const KINDS: [Piece; 6] = [
    Piece::Pawn,
    Piece::Knight,
    Piece::Bishop,
    Piece::Rook,
    Piece::Queen,
    Piece::King,
];

pub fn kind_of(p: Piece) -> u8 {
    match p {
        Piece::Pawn => 1,
        Piece::Knight => 2,
        Piece::Bishop => 3,
        Piece::Rook => 4,
        Piece::Queen => 5,
        Piece::King => 6,
    }
}
pub fn code(p: Piece, c: Color) -> u8 {
    if c == Color::White {
        kind_of(p)
    } else {
        kind_of(p) + 6
    }
}
pub fn piece_of_code(x: u8) -> (Piece, Color) {
    let k = ((x - 1) % 6) as usize;
    (KINDS[k], if x <= 6 { Color::White } else { Color::Black })
}
pub fn color_of(t: i64) -> Color {
    if t == 1 {
        Color::White
    } else {
        Color::Black
    }
}
pub fn turn_code(c: Color) -> u8 {
    if c == Color::White {
        1
    } else {
        0
    }
}
pub fn bb(sq: u32) -> Bitboard {
    if sq == 0 {
        Bitboard::EMPTY
    } else {
        Bitboard(1u64 << (sq - 1))
    }
}
pub fn sq_of(b: Bitboard) -> u32 {
    if b.is_empty() {
        0
    } else {
        b.trailing_zeros() + 1
    }
}
pub fn squares_of(b: Bitboard) -> Vec<u32> {
    (0..64).filter(|i| b.0 & (1u64 << i) != 0).map(|i| i + 1).collect()
}

/// An abstract position as the spec sees it.
#[derive(Clone, Debug, PartialEq, Eq, Hash)]
pub struct Pos {
    pub b: [u8; 64],
    pub turn: u8,
    pub rights: u8,
    pub ep: u8,
}

impl Pos {
    pub fn from_key(k: &[i64]) -> Pos {
        let mut b = [0u8; 64];
        for r in 0..8 {
            let mut v = k[r];
            for f in 0..8 {
                b[r * 8 + f] = (v % 13) as u8;
                v /= 13;
            }
        }
        Pos { b, turn: k[8] as u8, rights: k[9] as u8, ep: k[10] as u8 }
    }
    pub fn key(&self) -> Vec<i64> {
        let mut k = Vec::with_capacity(11);
        for r in 0..8 {
            let mut v: i64 = 0;
            for f in (0..8).rev() {
                v = v * 13 + self.b[r * 8 + f] as i64;
            }
            k.push(v);
        }
        k.push(self.turn as i64);
        k.push(self.rights as i64);
        k.push(self.ep as i64);
        k
    }
    pub fn from_json(v: &Value) -> Pos {
        let mut b = [0u8; 64];
        for (i, x) in v["b"].as_array().unwrap().iter().enumerate() {
            b[i] = x.as_u64().unwrap() as u8;
        }
        Pos {
            b,
            turn: v["turn"].as_u64().unwrap() as u8,
            rights: v["rights"].as_u64().unwrap() as u8,
            ep: v["ep"].as_u64().unwrap() as u8,
        }
    }
    pub fn to_json(&self) -> Value {
        json!({"b": self.b.to_vec(), "turn": self.turn, "rights": self.rights, "ep": self.ep})
    }
    pub fn of_board(board: &Board) -> Pos {
        let mut b = [0u8; 64];
        for i in 0..64 {
            b[i] = match board.get(Bitboard(1u64 << i)) {
                Some((p, c)) => code(p, c),
                None => 0,
            };
        }
        Pos {
            b,
            turn: turn_code(board.turn()),
            rights: board.peek_castle_rights(),
            ep: sq_of(board.peek_en_passant_target()) as u8,
        }
    }
    /// Set the position up through the public board-editing API only.
    pub fn setup(&self) -> Board {
        self.setup_clocks(0, 1)
    }
    pub fn setup_clocks(&self, hm: u64, fm: u64) -> Board {
        let mut board = Board::new();
        for i in 0..64 {
            if self.b[i] != 0 {
                let (p, c) = piece_of_code(self.b[i]);
                board.put(Bitboard(1u64 << i), p, c).unwrap();
            }
        }
        board.set_turn(color_of(self.turn as i64));
        board.lose_castle_rights(15 & !self.rights);
        if self.ep != 0 {
            board.push_en_passant_target(bb(self.ep as u32));
        }
        if hm != 0 {
            board.push_halfmove_clock(hm as _);
        }
        if fm != 1 {
            board.set_fullmove_clock(fm as _);
        }
        board
    }
    pub fn fen(&self) -> String {
        let pcs = b"PNBRQKpnbrqk";
        let mut s = String::new();
        for r in (0..8).rev() {
            let mut e = 0;
            for f in 0..8 {
                let x = self.b[r * 8 + f];
                if x == 0 {
                    e += 1;
                } else {
                    if e > 0 {
                        s.push_str(&e.to_string());
                        e = 0;
                    }
                    s.push(pcs[(x - 1) as usize] as char);
                }
            }
            if e > 0 {
                s.push_str(&e.to_string());
            }
            if r > 0 {
                s.push('/');
            }
        }
        s.push_str(if self.turn == 1 { " w " } else { " b " });
        let r = self.rights;
        let mut cr = String::new();
        if r & 8 != 0 {
            cr.push('K');
        }
        if r & 2 != 0 {
            cr.push('Q');
        }
        if r & 4 != 0 {
            cr.push('k');
        }
        if r & 1 != 0 {
            cr.push('q');
        }
        if cr.is_empty() {
            cr.push('-');
        }
        s.push_str(&cr);
        s.push(' ');
        if self.ep == 0 {
            s.push('-');
        } else {
            let e = self.ep - 1;
            s.push((b'a' + e % 8) as char);
            s.push((b'1' + e / 8) as char);
        }
        s
    }
}

/// A move in the spec's encoding.
#[derive(Clone, Debug, PartialEq, Eq, Hash, PartialOrd, Ord)]
pub struct Mv {
    pub k: char,
    pub f: u8,
    pub t: u8,
    pub p: u8,
    pub c: u8,
}

impl Mv {
    pub fn of(m: &ChessMove) -> Mv {
        let (k, p) = match m {
            ChessMove::Standard(_) => ('S', 0),
            ChessMove::PawnPromotion(pm) => ('P', kind_of(pm.promote_to_piece())),
            ChessMove::EnPassant(_) => ('E', 0),
            ChessMove::Castle(_) => ('C', 0),
        };
        let c = m.captures().map(|c| kind_of(c.0)).unwrap_or(0);
        Mv { k, f: sq_of(m.from_square()) as u8, t: sq_of(m.to_square()) as u8, p, c }
    }
    pub fn from_json(v: &Value) -> Mv {
        // either an array [k,f,t,p,c,...] or an object {k,f,t,p,c}
        if let Some(a) = v.as_array() {
            Mv {
                k: a[0].as_str().unwrap().chars().next().unwrap(),
                f: a[1].as_u64().unwrap() as u8,
                t: a[2].as_u64().unwrap() as u8,
                p: a[3].as_u64().unwrap() as u8,
                c: a[4].as_u64().unwrap() as u8,
            }
        } else {
            Mv {
                k: v["k"].as_str().unwrap().chars().next().unwrap(),
                f: v["f"].as_u64().unwrap() as u8,
                t: v["t"].as_u64().unwrap() as u8,
                p: v["p"].as_u64().unwrap() as u8,
                c: v["c"].as_u64().unwrap() as u8,
            }
        }
    }
    pub fn to_json(&self) -> Value {
        json!({"k": self.k.to_string(), "f": self.f, "t": self.t, "p": self.p, "c": self.c})
    }
    /// Build the engine move directly from the record (independent of the move generator).
    pub fn to_chess_move(&self, mover: Color) -> ChessMove {
        let cap = if self.c == 0 { None } else { Some(Capture(KINDS[(self.c - 1) as usize])) };
        match self.k {
            'S' => ChessMove::Standard(StandardChessMove::new(bb(self.f as u32), bb(self.t as u32), cap)),
            'P' => ChessMove::PawnPromotion(PawnPromotionChessMove::new(
                bb(self.f as u32),
                bb(self.t as u32),
                cap,
                KINDS[(self.p - 1) as usize],
            )),
            'E' => ChessMove::EnPassant(EnPassantChessMove::new(bb(self.f as u32), bb(self.t as u32))),
            _ => {
                if self.t > self.f {
                    ChessMove::Castle(CastleChessMove::castle_kingside(mover))
                } else {
                    ChessMove::Castle(CastleChessMove::castle_queenside(mover))
                }
            }
        }
    }
}

pub fn effect_str(e: ChessMoveEffect) -> &'static str {
    match e {
        ChessMoveEffect::None => "",
        ChessMoveEffect::Check => "+",
        ChessMoveEffect::Checkmate => "#",
        ChessMoveEffect::NotYetCalculated => "?",
    }
}

pub fn limbs(h: u64) -> Value {
    json!([(h >> 48) & 0xffff, (h >> 32) & 0xffff, (h >> 16) & 0xffff, h & 0xffff])
}

/// Everything the public getters expose (`Obs` of Engine.tla).
pub fn obs(board: &Board) -> Value {
    let p = Pos::of_board(board);
    json!({
        "b": p.b.to_vec(), "turn": p.turn, "cr": p.rights, "ep": p.ep,
        "hm": board.halfmove_clock() as u64, "fm": board.fullmove_clock() as u64,
        "key": limbs(board.current_position_hash()),
        "seen": board.max_seen_position_count() as u64,
    })
}

/// The redundant summaries C12 talks about: per (colour, piece) bitboards, per-colour occupied, whole-board occupied.
pub fn summaries(board: &Board) -> Value {
    let mut loc = Vec::new();
    for c in [Color::White, Color::Black] {
        for p in KINDS {
            loc.push(squares_of(board.pieces(c).locate(p)));
        }
    }
    json!({
        "loc": loc,
        "occw": squares_of(board.pieces(Color::White).occupied()),
        "occb": squares_of(board.pieces(Color::Black).occupied()),
        "occ": squares_of(board.occupied()),
    })
}

/// Run code under test; a panic is data, not a crash of the harness.
pub fn guarded<T>(f: impl FnOnce() -> T) -> Result<T, String> {
    catch_unwind(AssertUnwindSafe(f)).map_err(|e| {
        if let Some(s) = e.downcast_ref::<&str>() {
            s.to_string()
        } else if let Some(s) = e.downcast_ref::<String>() {
            s.clone()
        } else {
            "panic".to_string()
        }
    })
}

/// xorshift64* — every random choice of the harness derives from VERIF_SEED through this.
#[derive(Clone)]
pub struct Rng(pub u64);
impl Rng {
    pub fn new(seed: u64) -> Rng {
        let mut r = Rng(seed.wrapping_mul(0x9E3779B97F4A7C15) ^ 0xD1B54A32D192ED03);
        if r.0 == 0 {
            r.0 = 1;
        }
        for _ in 0..4 {
            r.next();
        }
        r
    }
    pub fn next(&mut self) -> u64 {
        self.0 ^= self.0 << 13;
        self.0 ^= self.0 >> 7;
        self.0 ^= self.0 << 17;
        self.0.wrapping_mul(0x2545F4914F6CDD1D)
    }
    pub fn below(&mut self, n: usize) -> usize {
        (self.next() % n as u64) as usize
    }
    pub fn chance(&mut self, num: u64, den: u64) -> bool {
        self.next() % den < num
    }
}

pub fn arg_val(args: &[String], name: &str) -> Option<String> {
    args.iter().position(|a| a == name).and_then(|i| args.get(i + 1).cloned())
}
pub fn arg_u64(args: &[String], name: &str, default: u64) -> u64 {
    arg_val(args, name).and_then(|s| s.parse().ok()).unwrap_or(default)
}
pub fn has_flag(args: &[String], name: &str) -> bool {
    args.iter().any(|a| a == name)
}

pub fn read_ndjson(path: &str) -> Vec<Value> {
    use std::io::BufRead;
    let f = std::fs::File::open(path).unwrap_or_else(|e| panic!("open {}: {}", path, e));
    let r = std::io::BufReader::new(f);
    r.lines()
        .map(|l| l.unwrap())
        .filter(|l| !l.trim().is_empty())
        .map(|l| serde_json::from_str(&l).unwrap())
        .collect()
}

/// Records printed by TLC through PrintT(ToJson(..)): lines that are a quoted JSON string.
/// Plain NDJSON lines (starting with '{') are accepted too; everything else is TLC chatter.
pub fn read_tlc_records(path: &str) -> Vec<Value> {
    use std::io::BufRead;
    let f = std::fs::File::open(path).unwrap_or_else(|e| panic!("open {}: {}", path, e));
    let r = std::io::BufReader::new(f);
    let mut v = Vec::new();
    for l in r.lines() {
        let l = l.unwrap();
        if l.starts_with('"') {
            if let Ok(inner) = serde_json::from_str::<String>(&l) {
                if let Ok(x) = serde_json::from_str::<Value>(&inner) {
                    v.push(x);
                }
            }
        } else if l.starts_with('{') {
            if let Ok(x) = serde_json::from_str::<Value>(&l) {
                v.push(x);
            }
        }
    }
    v
}

/// Before a call that may take the whole process down (stack overflow, abort) the harness notes what
/// it is about to do in the file named by VERIF_MARKER, so that the driver can report the case.
pub fn marker(v: &Value) {
    if let Ok(p) = std::env::var("VERIF_MARKER") {
        let _ = std::fs::write(p, v.to_string());
    }
}
