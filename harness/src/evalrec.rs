//! C18: static evaluation.  Logs (position, score, mirrored position, score of the mirror) records
//! and mate / stalemate scores by remaining depth; validated by Trace_Records (Mirror, a = -b, bounds).
use crate::records::mirror;
use crate::util::*;
use chess::board::Board;
use chess::evaluate;
use chess::move_generator::MoveGenerator;
use serde_json::json;
use std::io::Write;

const MATES: [&str; 6] = [
    "7k/6Q1/6K1/8/8/8/8/8 b - -",
    "8/8/8/8/8/6k1/6q1/7K w - -",
    "R5k1/5ppp/8/8/8/8/8/6K1 b - -",
    "6k1/8/8/8/8/8/5PPP/r5K1 w - -",
    "rnb1kbnr/pppp1ppp/8/4p3/6Pq/5P2/PPPPP2P/RNBQKBNR w KQkq -",
    "r1bqkb1r/pppp1Qpp/2n2n2/4p3/2B1P3/8/PPPP1PPP/RNB1K1NR b KQkq -",
];
const STALEMATES: [&str; 5] = [
    "7k/5Q2/6K1/8/8/8/8/8 b - -",
    "8/8/8/8/8/5k2/5q2/7K w - -",
    "k7/P7/K7/8/8/8/8/8 b - -",
    // the stalemated king stands on a square its own pawn "attacks"
    "8/6p1/6Pk/7P/6K1/8/8/8 b - -",
    "8/8/8/6k1/7p/6pK/6P1/8 w - -",
];

fn rec_mirror(file: &mut dyn Write, pos: &Pos, mm: i64) -> bool {
    let mir = mirror(pos);
    let r = guarded(|| {
        let b1 = pos.setup();
        let b2 = mir.setup();
        (evaluate::board_material_score(&b1) as i64, evaluate::board_material_score(&b2) as i64)
    });
    match r {
        Ok((a, b)) => {
            writeln!(file, "{}", json!({"t": "mirror", "pos": pos.to_json(), "mir": mir.to_json(), "a": a, "b": b, "mm": mm})).unwrap();
            true
        }
        Err(p) => {
            writeln!(file, "{}", json!({"t": "panic-eval", "pos": pos.to_json(), "where": p})).unwrap();
            false
        }
    }
}

fn place(b: &mut [u8; 64], rng: &mut Rng, code: u8) -> bool {
    for _ in 0..200 {
        let s = rng.below(64);
        if b[s] != 0 {
            continue;
        }
        if (code == 1 || code == 7) && (s < 8 || s >= 56) {
            continue;
        }
        b[s] = code;
        return true;
    }
    false
}

/// record-eval <out> --seed N --random K --games G
pub fn main(args: &[String]) {
    let out_path = &args[0];
    let seed = arg_u64(args, "--seed", 1);
    let random = arg_u64(args, "--random", 500);
    let games = arg_u64(args, "--games", 5);
    let mut rng = Rng::new(seed);
    let mut file = std::io::BufWriter::new(std::fs::File::create(out_path).unwrap());
    let mut n = 0u64;
    // mate / stalemate scores by remaining depth
    let mut gen = MoveGenerator::with_cache_capacity(1 << 10);
    let mut all: Vec<(Pos, &str, Vec<i64>)> = vec![];
    for (kind, list) in [("checkmate", &MATES[..]), ("stalemate", &STALEMATES[..])] {
        for fen in list.iter() {
            let pos = crate::trace::parse_fen(fen);
            let r = guarded(|| {
                let mut board = pos.setup();
                let turn = board.turn();
                (0..=255u8).map(|d| evaluate::score(&mut board, &mut gen, turn, d) as i64).collect::<Vec<_>>()
            });
            match r {
                Ok(sc) => all.push((pos.clone(), kind, sc)),
                Err(p) => {
                    writeln!(file, "{}", json!({"t": "panic-eval", "pos": pos.to_json(), "where": p})).unwrap();
                    n += 1;
                }
            }
            // the same with a generator that has just answered check tests and attack maps for BOTH colours on
            // this very board, with either side to move (as the search does around every leaf)
            let r2 = guarded(|| {
                let mut used = MoveGenerator::with_cache_capacity(1 << 10);
                let mut board = pos.setup();
                let turn = board.turn();
                for _ in 0..2 {
                    for c in [chess::board::color::Color::White, chess::board::color::Color::Black] {
                        let _ = evaluate::player_is_in_check(&board, &mut used, c);
                        let _ = used.get_attack_targets(&board, c);
                    }
                    board.toggle_turn();
                }
                (0..=40u8).map(|d| evaluate::score(&mut board, &mut used, turn, d) as i64).collect::<Vec<_>>()
            });
            match r2 {
                Ok(sc) => all.push((pos, kind, sc)),
                Err(p) => {
                    writeln!(file, "{}", json!({"t": "panic-eval", "pos": pos.to_json(), "where": p})).unwrap();
                    n += 1;
                }
            }
        }
    }
    let mm: i64 = all.iter().filter(|x| x.1 == "checkmate").flat_map(|x| x.2.iter().map(|v| v.abs())).min().unwrap_or(0);
    for (pos, kind, sc) in all.iter() {
        writeln!(file, "{}", json!({"t": "matescore", "pos": pos.to_json(), "kind": kind, "scores": sc, "mm": mm})).unwrap();
        n += 1;
    }
    // covering family: every (piece kind, square) for both colours, end-game switch off and on
    for phase in 0..2 {
        for code in 1..=12u8 {
            for sq in 0..64usize {
                let kind = (code - 1) % 6 + 1;
                if kind == 1 && (sq < 8 || sq >= 56) {
                    continue;
                }
                let mut b = [0u8; 64];
                b[sq] = code;
                let mut ok = true;
                if kind != 6 || code != 6 {
                    // white king unless the tested piece is it
                }
                if code != 6 {
                    ok &= place(&mut b, &mut rng, 6);
                }
                if code != 12 {
                    ok &= place(&mut b, &mut rng, 12);
                }
                if phase == 0 {
                    // middle-game context: queens and several pieces on both sides
                    for c in [5u8, 4, 4, 2, 11, 10, 10, 8] {
                        ok &= place(&mut b, &mut rng, c);
                    }
                }
                if !ok {
                    continue;
                }
                let pos = Pos { b, turn: (rng.below(2)) as u8, rights: 0, ep: 0 };
                rec_mirror(&mut file, &pos, mm);
                n += 1;
            }
        }
    }
    // material extremes: many promoted queens, bare kings, random mixes
    for i in 0..random {
        let mut b = [0u8; 64];
        place(&mut b, &mut rng, 6);
        place(&mut b, &mut rng, 12);
        let (wq, bq) = match i % 5 {
            0 => (9, 0),
            1 => (0, 9),
            2 => (9, 9),
            3 => (0, 0),
            _ => (rng.below(10), rng.below(10)),
        };
        for _ in 0..wq {
            place(&mut b, &mut rng, 5);
        }
        for _ in 0..bq {
            place(&mut b, &mut rng, 11);
        }
        if i % 5 != 3 {
            for c in [4u8, 4, 3, 3, 2, 2, 10, 10, 9, 9, 8, 8] {
                if rng.chance(2, 3) {
                    place(&mut b, &mut rng, c);
                }
            }
            let pawns = rng.below(9 - wq.min(8));
            for _ in 0..pawns {
                place(&mut b, &mut rng, 1);
            }
            let pawns = rng.below(9 - bq.min(8));
            for _ in 0..pawns {
                place(&mut b, &mut rng, 7);
            }
        }
        let pos = Pos { b, turn: rng.below(2) as u8, rights: 0, ep: 0 };
        rec_mirror(&mut file, &pos, mm);
        n += 1;
    }
    // the catalogue seeds (rule interactions: en passant as the only move, pinned en passant, castling ...):
    // the leaf evaluation must follow the position's true verdict there too
    if let Some(sp) = arg_val(args, "--seeds") {
        let mut gs = MoveGenerator::with_cache_capacity(1 << 10);
        for pos in read_ndjson(&sp).iter().map(Pos::from_json) {
            let r = guarded(|| {
                let mut b2 = pos.setup();
                let t = b2.turn();
                let sc: Vec<i64> = (0..4u8).map(|d| evaluate::score(&mut b2, &mut gs, t, d) as i64).collect();
                (sc, evaluate::board_material_score(&b2) as i64)
            });
            if pos.rights == 0 {
                let mut mir = mirror(&pos);
                mir.ep = if pos.ep == 0 { 0 } else { 65 - pos.ep };
                let rm = guarded(|| {
                    let mut b1 = pos.setup();
                    let mut b2 = mir.setup();
                    let (t1, t2) = (b1.turn(), b2.turn());
                    let a: Vec<i64> = (0..4u8).map(|d| evaluate::score(&mut b1, &mut gs, t1, d) as i64).collect();
                    let b: Vec<i64> = (0..4u8).map(|d| evaluate::score(&mut b2, &mut gs, t2, d) as i64).collect();
                    (a, b)
                });
                if let Ok((a, b)) = rm {
                    writeln!(file, "{}", json!({"t": "scoremirror", "pos": pos.to_json(), "mir": mir.to_json(), "a": a, "b": b})).unwrap();
                    n += 1;
                }
            }
            match r {
                Ok((sc, st)) => writeln!(file, "{}", json!({"t": "score", "pos": pos.to_json(), "hm": 0, "scores": sc, "static": st, "mm": mm})).unwrap(),
                Err(p) => writeln!(file, "{}", json!({"t": "panic-eval", "pos": pos.to_json(), "where": p})).unwrap(),
            }
            n += 1;
        }
    }
    // positions of random games
    let mut g = MoveGenerator::new();
    for _ in 0..games {
        let mut board = Board::starting_position();
        for _ in 0..120 {
            let pos = Pos::of_board(&board);
            rec_mirror(&mut file, &pos, mm);
            n += 1;
            // the leaf evaluation the search uses, at remaining depths 0..3, and the text rendering
            if rng.chance(1, 3) {
                let hm = board.halfmove_clock() as u64;
                let r = guarded(|| {
                    let mut b2 = pos.setup_clocks(hm, 1);
                    let t = b2.turn();
                    let sc: Vec<i64> = (0..4u8).map(|d| evaluate::score(&mut b2, &mut g, t, d) as i64).collect();
                    (sc, evaluate::board_material_score(&b2) as i64)
                });
                if let Ok((sc, st)) = r {
                    writeln!(file, "{}", json!({"t": "score", "pos": pos.to_json(), "hm": hm, "scores": sc, "static": st, "mm": mm})).unwrap();
                    n += 1;
                }
                let text = format!("{}", board);
                let rows: Vec<Vec<String>> = text.lines().map(|l| l.chars().map(|c| c.to_string()).collect()).collect();
                writeln!(file, "{}", json!({"t": "render", "pos": pos.to_json(), "rows": rows})).unwrap();
                n += 1;
            }
            let side = board.turn();
            let moves = match guarded(|| g.generate_moves(&mut board, side)) {
                Ok(m) => m,
                Err(_) => break,
            };
            if moves.is_empty() {
                break;
            }
            let m = moves[rng.below(moves.len())].clone();
            if guarded(|| m.apply(&mut board).is_ok()) != Ok(true) {
                break;
            }
            board.toggle_turn();
        }
    }
    file.flush().unwrap();
    println!("{}", json!({"records": n, "min_mate_magnitude": mm}));
}
