//! B2 (history-free part): drive the real code along seeded random games and random consistent
//! set-ups and log, for the positions met, the answers the code gives; TLC (Trace_Records)
//! validates every logged answer against layer R.
use crate::util::*;
use chess::board::color::Color;
use chess::board::Board;
use chess::chess_move::algebraic_notation::enumerate_candidate_moves_with_algebraic_notation;
use chess::evaluate::{self, GameEnding};
use chess::game::stockfish_elo::verif_create_chess_move_from_uci;
use chess::move_generator::MoveGenerator;
use serde_json::{json, Value};
use std::collections::BTreeSet;
use std::io::Write;

fn ending_str(e: &Option<GameEnding>) -> &'static str {
    match e {
        None => "none",
        Some(GameEnding::Checkmate) => "checkmate",
        Some(GameEnding::Stalemate) => "stalemate",
        Some(GameEnding::Draw) => "draw",
    }
}

/// A random placement that is consistent by construction except for "side not to move not in
/// check", which the spec decides (inconsistent records are skipped by the validator).
pub fn random_setup(rng: &mut Rng, max_extra: usize) -> Pos {
    loop {
        let mut b = [0u8; 64];
        let mut rights = 0u8;
        // kings: sometimes at home with rooks so that castling rights are possible
        let home = rng.chance(1, 3);
        let wk = if home { 4 } else { rng.below(64) };
        let mut bk = if home && rng.chance(2, 3) { 60 } else { rng.below(64) };
        let mut guard = 0;
        while bk == wk || ((bk % 8) as i32 - (wk % 8) as i32).abs() <= 1 && ((bk / 8) as i32 - (wk / 8) as i32).abs() <= 1 {
            bk = rng.below(64);
            guard += 1;
            if guard > 100 {
                break;
            }
        }
        b[wk] = 6;
        b[bk] = 12;
        if wk == 4 {
            if rng.chance(2, 3) && b[7] == 0 {
                b[7] = 4;
                if rng.chance(3, 4) {
                    rights |= 8;
                }
            }
            if rng.chance(2, 3) && b[0] == 0 {
                b[0] = 4;
                if rng.chance(3, 4) {
                    rights |= 2;
                }
            }
        }
        if bk == 60 {
            if rng.chance(2, 3) && b[63] == 0 {
                b[63] = 10;
                if rng.chance(3, 4) {
                    rights |= 4;
                }
            }
            if rng.chance(2, 3) && b[56] == 0 {
                b[56] = 10;
                if rng.chance(3, 4) {
                    rights |= 1;
                }
            }
        }
        let extra = rng.below(max_extra + 1);
        for _ in 0..extra {
            let kind = [1u8, 1, 1, 2, 3, 4, 5, 2, 3, 4][rng.below(10)];
            let col = rng.below(2) as u8; // 0 white 1 black
            for _ in 0..20 {
                let s = rng.below(64);
                if b[s] != 0 {
                    continue;
                }
                if kind == 1 && (s < 8 || s >= 56) {
                    continue;
                }
                b[s] = kind + 6 * col;
                break;
            }
        }
        let turn = rng.below(2) as u8;
        // en-passant target consistent with a just-made double step of the side not to move
        let mut ep = 0u8;
        if rng.chance(1, 2) {
            let mut cands = vec![];
            for f in 0..8usize {
                if turn == 1 {
                    // black just moved: black pawn on rank 5 (index 4), rank 6 and 7 squares empty
                    if b[4 * 8 + f] == 7 && b[5 * 8 + f] == 0 && b[6 * 8 + f] == 0 {
                        cands.push((5 * 8 + f + 1) as u8);
                    }
                } else if b[3 * 8 + f] == 1 && b[2 * 8 + f] == 0 && b[8 + f] == 0 {
                    cands.push((2 * 8 + f + 1) as u8);
                }
            }
            if !cands.is_empty() {
                ep = cands[rng.below(cands.len())];
            }
        }
        return Pos { b, turn, rights, ep };
    }
}

pub fn mirror(pos: &Pos) -> Pos {
    let mut b = [0u8; 64];
    for s in 0..64 {
        let x = pos.b[63 - s];
        b[s] = if x == 0 {
            0
        } else if x <= 6 {
            x + 6
        } else {
            x - 6
        };
    }
    Pos { b, turn: 1 - pos.turn, rights: 0, ep: 0 }
}

pub struct Emitter<'a> {
    pub out: &'a mut dyn Write,
    pub types: BTreeSet<String>,
    pub count: u64,
}

impl<'a> Emitter<'a> {
    fn put(&mut self, v: Value) {
        writeln!(self.out, "{}", v).unwrap();
        self.count += 1;
    }

    /// Log the code's answers for the position on `board` (side to move = board.turn()).
    /// Returns false if the code under test panicked (the board may then be corrupted and the
    /// caller must abandon it).
    pub fn position(&mut self, board: &mut Board, gen: &mut MoveGenerator, rng: &mut Rng, heavy_one_in: u64) -> bool {
        let pos = Pos::of_board(board);
        let side = board.turn();
        if self.types.contains("moves") {
            if let Ok(list) = guarded(|| gen.generate_moves(board, side)) {
                let mv: Vec<Value> = list.iter().map(|m| Mv::of(m).to_json()).collect();
                self.put(json!({"t": "moves", "pos": pos.to_json(), "mv": mv}));
            } else {
                self.put(json!({"t": "panic", "pos": pos.to_json(), "where": "generate_moves"}));
                return false;
            }
        }
        let heavy = rng.chance(1, heavy_one_in.max(1));
        if self.types.contains("verdict") && heavy {
            let r = guarded(|| {
                let c = evaluate::player_is_in_check(board, gen, side);
                let e = evaluate::game_ending(board, gen, side);
                let hm = board.halfmove_clock() as u64;
                let ann = gen.generate_moves_and_lazily_update_chess_move_effects(board, side);
                (c, ending_str(&e), hm, ann.iter().map(|m| json!([Mv::of(m).to_json(), effect_str(m.effect())])).collect::<Vec<_>>())
            });
            match r {
                Ok((c, e, hm, effs)) => self.put(json!({"t": "verdict", "pos": pos.to_json(), "chk": c, "ending": e, "hm": hm, "effs": effs})),
                Err(_) => {
                    self.put(json!({"t": "panic", "pos": pos.to_json(), "where": "verdict"}));
                    return false;
                }
            }
        }
        if self.types.contains("san") && heavy {
            let r = guarded(|| {
                enumerate_candidate_moves_with_algebraic_notation(board, side, gen)
                    .iter()
                    .map(|(m, s)| json!([Mv::of(m).to_json(), s]))
                    .collect::<Vec<_>>()
            });
            match r {
                Ok(labels) => self.put(json!({"t": "san", "pos": pos.to_json(), "labels": labels})),
                Err(_) => {
                    self.put(json!({"t": "panic", "pos": pos.to_json(), "where": "san"}));
                    return false;
                }
            }
        }
        if self.types.contains("uci") {
            let r = guarded(|| {
                gen.generate_moves(board, side)
                    .iter()
                    .map(|m| {
                        let text = m.to_uci();
                        let back = verif_create_chess_move_from_uci(&text, board);
                        json!([Mv::of(m).to_json(), text, Mv::of(&back).to_json()])
                    })
                    .collect::<Vec<_>>()
            });
            match r {
                Ok(texts) => self.put(json!({"t": "uci", "pos": pos.to_json(), "texts": texts})),
                Err(_) => {
                    self.put(json!({"t": "panic", "pos": pos.to_json(), "where": "uci"}));
                    return false;
                }
            }
        }
        if self.types.contains("mirror") {
            let mir = mirror(&pos);
            let r = guarded(|| {
                let a = evaluate::board_material_score(board);
                let mb = mir.setup();
                let b = evaluate::board_material_score(&mb);
                (a as i64, b as i64)
            });
            match r {
                Ok((a, b)) => self.put(json!({"t": "mirror", "pos": pos.to_json(), "mir": mir.to_json(), "a": a, "b": b})),
                Err(_) => {
                    self.put(json!({"t": "panic", "pos": pos.to_json(), "where": "mirror"}));
                    return false;
                }
            }
        }
        true
    }

    pub fn succ(&mut self, before: &Pos, m: &Mv, ok: bool, after: &Pos) {
        if self.types.contains("succ") {
            self.put(json!({"t": "succ", "pos": before.to_json(), "m": m.to_json(), "ok": ok, "after": after.to_json()}));
        }
    }
}

/// record-games <out> --seed N --games G --plies P --types a,b,c [--seeds file] [--setups K] [--heavy-one-in H]
pub fn main(args: &[String]) {
    let out_path = &args[0];
    let seed = arg_u64(args, "--seed", 1);
    let games = arg_u64(args, "--games", 10);
    let plies = arg_u64(args, "--plies", 80);
    let setups = arg_u64(args, "--setups", 0);
    let heavy = arg_u64(args, "--heavy-one-in", 1);
    let max_extra = arg_u64(args, "--max-extra", 10) as usize;
    let types: BTreeSet<String> = arg_val(args, "--types").unwrap_or("moves".into()).split(',').map(|s| s.to_string()).collect();
    let seeds: Vec<Pos> = match arg_val(args, "--seeds") {
        Some(p) => read_ndjson(&p).iter().map(Pos::from_json).collect(),
        None => vec![],
    };
    let mut file = std::io::BufWriter::new(std::fs::File::create(out_path).unwrap());
    let mut rng = Rng::new(seed);
    let mut em = Emitter { out: &mut file, types, count: 0 };
    let mut gen = MoveGenerator::new();
    let mut positions = 0u64;
    for g in 0..games {
        // alternate: standard start, catalogue seeds
        let mut board = if g % 2 == 0 || seeds.is_empty() {
            Board::starting_position()
        } else {
            seeds[rng.below(seeds.len())].setup()
        };
        for _ in 0..plies {
            if !em.position(&mut board, &mut gen, &mut rng, heavy) {
                break;
            }
            positions += 1;
            let side = board.turn();
            let moves = match guarded(|| gen.generate_moves(&mut board, side)) {
                Ok(m) => m,
                Err(_) => break,
            };
            if moves.is_empty() {
                break;
            }
            // prefer special moves now and then so that castling / ep / promotions are played
            let special: Vec<_> = moves.iter().filter(|m| { let x = Mv::of(m); x.k != 'S' || x.c != 0 }).collect();
            let m = if !special.is_empty() && rng.chance(1, 3) { special[rng.below(special.len())].clone() } else { moves[rng.below(moves.len())].clone() };
            let before = Pos::of_board(&board);
            let ok = guarded(|| m.apply(&mut board).is_ok()).unwrap_or(false);
            let after = Pos::of_board(&board);
            em.succ(&before, &Mv::of(&m), ok, &after);
            if !ok {
                break;
            }
            board.toggle_turn();
        }
    }
    for _ in 0..setups {
        let pos = random_setup(&mut rng, max_extra);
        let mut board = pos.setup();
        // a fresh (small-cache) generator per set-up: C01 speaks of a freshly created generator
        let mut fresh = MoveGenerator::with_cache_capacity(1 << 10);
        em.position(&mut board, &mut fresh, &mut rng, heavy);
        positions += 1;
    }
    let n = em.count;
    drop(em);
    file.flush().unwrap();
    println!("{}", json!({"records": n, "positions": positions}));
    let _ = Color::White;
}
