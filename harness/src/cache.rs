//! C02: one long-lived generator is asked along tree walks, games with backtracking and searches;
//! at every node its answer is compared with a generator that cannot hold a cached entry.
//! Disagreements (all) and agreeing nodes (a sample) are logged for Trace_Gen.
use crate::util::*;
use chess::alpha_beta_searcher::{alpha_beta_search, SearchContext};
use chess::board::color::Color;
use chess::board::Board;
use chess::move_generator::MoveGenerator;
use serde_json::json;
use std::io::Write;

struct Ctx<'a> {
    long: MoveGenerator,
    reference: MoveGenerator,
    out: &'a mut dyn Write,
    rng: Rng,
    nodes: u64,
    logged: u64,
    move_diffs: u64,
    attack_checks: u64,
    attack_diffs: u64,
    sample_one_in: u64,
    attack_one_in: u64,
    panics: u64,
    /// reference for the every-node attack-map comparison: replaced by a brand-new generator every
    /// ATTACK_REF_LIFETIME questions, so it never holds enough entries to alias with itself
    attack_ref: MoveGenerator,
    attack_ref_asked: u64,
    twins: u64,
}

const ATTACK_REF_LIFETIME: u64 = 2000;

impl<'a> Ctx<'a> {
    /// returns the long-lived generator's move list (the walk continues with it, as real callers do)
    fn node(&mut self, board: &mut Board) -> Option<chess::move_generator::ChessMoveList> {
        let side = board.turn();
        self.node_as(board, side)
    }

    /// the question as the library's own traversals put it: the player is passed explicitly and need not be
    /// `board.turn()` (count_positions, the legality filter and the check / mate annotation never toggle the turn)
    fn node_as(&mut self, board: &mut Board, side: Color) -> Option<chess::move_generator::ChessMoveList> {
        self.nodes += 1;
        // now and then the long-lived generator has just been asked the ANNOTATING question about this very
        // position (as notation listing, book selection and every search node do): the plain answer that
        // follows must still be the brand-new generator's answer, annotation field included
        if self.rng.chance(1, 4) {
            let _ = guarded(|| {
                self.long.generate_moves_and_lazily_update_chess_move_effects(board, side);
            });
        }
        let long = match guarded(|| self.long.generate_moves(board, side)) {
            Ok(m) => m,
            Err(_) => {
                self.panics += 1;
                return None;
            }
        };
        // a generator that cannot hit: capacity-1 cache whose hit counter must not move; else a new one
        let before = self.reference.cache_hit_count();
        let mut fresh = match guarded(|| self.reference.generate_moves(board, side)) {
            Ok(m) => m,
            Err(_) => {
                self.panics += 1;
                return None;
            }
        };
        if self.reference.cache_hit_count() != before {
            let mut brand_new = MoveGenerator::with_cache_capacity(1);
            fresh = brand_new.generate_moves(board, side);
        }
        let a: Vec<(Mv, &'static str)> = { let mut v: Vec<(Mv, &'static str)> = long.iter().map(|m| (Mv::of(m), effect_str(m.effect()))).collect(); v.sort(); v };
        let b: Vec<(Mv, &'static str)> = { let mut v: Vec<(Mv, &'static str)> = fresh.iter().map(|m| (Mv::of(m), effect_str(m.effect()))).collect(); v.sort(); v };
        let differs = a != b;
        let with_eff = |v: &Vec<(Mv, &'static str)>| v.iter().map(|(m, e)| { let mut j = m.to_json(); j["e"] = json!(e); j }).collect::<Vec<_>>();
        if differs {
            self.move_diffs += 1;
        }
        let pos = Pos::of_board(board);
        // (a defect that shows at every node would fill the disk: the first few hundred disagreements are
        // logged for TLC, all of them are counted in the summary)
        if (differs && self.move_diffs <= 300) || self.rng.chance(1, self.sample_one_in) {
            writeln!(self.out, "{}", json!({"ev": "Q", "what": "moves", "pos": pos.to_json(), "key": limbs(board.current_position_hash()),
                "side": turn_code(side), "long": with_eff(&a), "fresh": with_eff(&b)})).unwrap();
            self.logged += 1;
        }
        // every node: the long-lived generator's attack maps (both colours) against a generator that is at most
        // ATTACK_REF_LIFETIME questions old. The long-lived attack cache thereby holds one entry per colour and
        // distinct node of the whole recording (several 10^5): a key that tells fewer positions apart than the
        // 64-bit position key (a truncated or folded key) serves a stale map to one of them
        if self.attack_ref_asked >= ATTACK_REF_LIFETIME {
            self.attack_ref = MoveGenerator::with_cache_capacity(1);
            self.attack_ref_asked = 0;
        }
        for c in [Color::White, Color::Black] {
            self.attack_checks += 1;
            self.attack_ref_asked += 1;
            let x = guarded(|| squares_of(self.long.get_attack_targets(board, c)));
            let y = guarded(|| squares_of(self.attack_ref.get_attack_targets(board, c)));
            if let (Ok(x), Ok(y)) = (x, y) {
                if x != y {
                    self.attack_diffs += 1;
                    if self.attack_diffs <= 300 {
                        writeln!(self.out, "{}", json!({"ev": "Q", "what": "attacks", "pos": pos.to_json(), "key": limbs(board.current_position_hash()),
                            "side": turn_code(c), "long": x, "fresh": y})).unwrap();
                        self.logged += 1;
                    }
                }
            }
        }
        if (differs && self.move_diffs <= 300) || self.rng.chance(1, self.attack_one_in) {
            let mut brand_new = MoveGenerator::with_cache_capacity(1);
            for c in [Color::White, Color::Black] {
                self.attack_checks += 1;
                let x = guarded(|| squares_of(self.long.get_attack_targets(board, c)));
                let y = guarded(|| squares_of(brand_new.get_attack_targets(board, c)));
                if let (Ok(x), Ok(y)) = (x, y) {
                    let d = x != y;
                    if d {
                        self.attack_diffs += 1;
                    }
                    if (d && self.attack_diffs <= 300) || self.rng.chance(1, 4) {
                        writeln!(self.out, "{}", json!({"ev": "Q", "what": "attacks", "pos": pos.to_json(), "key": limbs(board.current_position_hash()),
                            "side": turn_code(c), "long": x, "fresh": y})).unwrap();
                        self.logged += 1;
                    }
                }
            }
        }
        Some(long)
    }

    /// perft-shaped walk that leaves `board.turn()` alone, as `count_positions_inner` does. At every promotion the
    /// long-lived generator is first asked about the TWIN of the position the promotion leads to (same placement,
    /// the promoted piece in the other colour, set up from scratch): two positions that differ in placement and
    /// must not share an answer, whichever way the board got its key
    fn tree_untoggled(&mut self, board: &mut Board, player: Color, depth: u32) {
        let moves = match self.node_as(board, player) {
            Some(m) => m,
            None => return,
        };
        if depth == 0 {
            return;
        }
        for m in moves.iter() {
            if guarded(|| m.apply(board).is_ok()) != Ok(true) {
                self.panics += 1;
                return;
            }
            if matches!(m, chess::chess_move::chess_move::ChessMove::PawnPromotion(_)) && self.twins < 400 {
                self.twins += 1;
                let mut twin = Pos::of_board(board);
                let to = m.to_square().0.trailing_zeros() as usize;
                if twin.b[to] != 0 {
                    twin.b[to] = if twin.b[to] <= 6 { twin.b[to] + 6 } else { twin.b[to] - 6 };
                    let mut tb = twin.setup();
                    self.node_as(&mut tb, Color::White);
                    self.node_as(&mut tb, Color::Black);
                }
            }
            self.tree_untoggled(board, player.opposite(), depth - 1);
            if guarded(|| m.undo(board).is_ok()) != Ok(true) {
                self.panics += 1;
                return;
            }
        }
    }

    fn tree(&mut self, board: &mut Board, depth: u32) {
        let moves = match self.node(board) {
            Some(m) => m,
            None => return,
        };
        if depth == 0 {
            return;
        }
        for m in moves.iter() {
            if guarded(|| m.apply(board).is_ok()) != Ok(true) {
                self.panics += 1;
                return;
            }
            board.toggle_turn();
            self.tree(board, depth - 1);
            board.toggle_turn();
            if guarded(|| m.undo(board).is_ok()) != Ok(true) {
                self.panics += 1;
                return;
            }
        }
    }
}

/// record-cache <out> --seed N --tree-depth D --seed-depth E --games G --plies P [--seeds file]
pub fn main(args: &[String]) {
    let out_path = &args[0];
    let seed = arg_u64(args, "--seed", 1);
    let tree_depth = arg_u64(args, "--tree-depth", 3) as u32;
    let seed_depth = arg_u64(args, "--seed-depth", 2) as u32;
    let games = arg_u64(args, "--games", 10);
    let plies = arg_u64(args, "--plies", 80);
    let seeds: Vec<Pos> = match arg_val(args, "--seeds") {
        Some(p) => read_ndjson(&p).iter().map(Pos::from_json).collect(),
        None => vec![],
    };
    let mut file = std::io::BufWriter::new(std::fs::File::create(out_path).unwrap());
    let mut cx = Ctx {
        long: MoveGenerator::new(),
        reference: MoveGenerator::with_cache_capacity(1),
        out: &mut file,
        rng: Rng::new(seed),
        nodes: 0,
        logged: 0,
        move_diffs: 0,
        attack_checks: 0,
        attack_diffs: 0,
        sample_one_in: arg_u64(args, "--sample-one-in", 200),
        attack_one_in: arg_u64(args, "--attack-one-in", 100),
        panics: 0,
        attack_ref: MoveGenerator::with_cache_capacity(1),
        attack_ref_asked: 0,
        twins: 0,
    };
    // (i) perft-shaped walks: the start position (contains 1.a4 h6 2.a5 b5 / 1.a4 b5 2.a5 h6 at depth 4) and seeds
    let mut b = Board::starting_position();
    cx.tree(&mut b, tree_depth);
    let deep = arg_u64(args, "--deep-seeds", 0) as usize;
    for (i, p) in seeds.iter().enumerate() {
        let mut b = p.setup();
        // the first few catalogue seeds (the perft suite) are walked one ply deeper
        cx.tree(&mut b, if i >= 1 && i <= deep { seed_depth + 1 } else { seed_depth });
    }
    // (i') the same shape without toggling the turn, from the promotion seeds (both colours promote while the board
    // says it is the other side's move)
    for p in seeds.iter().filter(|p| (48..56).any(|i| p.b[i] == 1) || (8..16).any(|i| p.b[i] == 7)).take(12) {
        let mut b = p.setup();
        let t = b.turn();
        cx.tree_untoggled(&mut b, t, 2);
        cx.tree_untoggled(&mut b, t.opposite(), 2);
    }
    // (ii) random games with backtracking and revisits
    for g in 0..games {
        let mut board = if g % 2 == 0 || seeds.is_empty() { Board::starting_position() } else { seeds[cx.rng.below(seeds.len())].setup() };
        let mut stack = vec![];
        for _ in 0..plies {
            let moves = match cx.node(&mut board) {
                Some(m) => m,
                None => break,
            };
            if moves.is_empty() {
                break;
            }
            if !stack.is_empty() && cx.rng.chance(1, 5) {
                let n = 1 + cx.rng.below(stack.len().min(6));
                for _ in 0..n {
                    let m: chess::chess_move::chess_move::ChessMove = stack.pop().unwrap();
                    board.toggle_turn();
                    if guarded(|| m.undo(&mut board).is_ok()) != Ok(true) {
                        break;
                    }
                    cx.node(&mut board);
                }
                continue;
            }
            let m = moves[cx.rng.below(moves.len())].clone();
            if guarded(|| m.apply(&mut board).is_ok()) != Ok(true) {
                break;
            }
            board.toggle_turn();
            stack.push(m);
        }
        // (iii) a search with the same long-lived generator, then ask again
        if board.occupied().count_ones() <= 14 {
            let _ = guarded(|| {
                let mut ctx = SearchContext::new(3);
                let _ = alpha_beta_search(&mut ctx, &mut board, &mut cx.long);
            });
            cx.node(&mut board);
        }
    }
    // (iv) scripted shuffles on one board: rooks and kings leave home, come back and leave again -- the same
    // placement recurs with fewer castling rights (and with an expired en-passant target)
    let shuffles: Vec<(&str, String)> = crate::trace::SCRIPTS
        .iter()
        .map(|(_, f, m)| (*f, m.to_string()))
        .chain([
            // one side's rook / king leaves home, returns and leaves again while the other side only moves a knight:
            // the placement of the first query comes back with fewer rights
            ("r3k1nr/pppppppp/8/8/8/8/PPPPPPPP/R3K1NR w KQkq -", "a1b1 g8f6 b1a1 f6g8 a1b1 g8f6 b1a1 f6g8".to_string()),
            ("r3k1nr/pppppppp/8/8/8/8/PPPPPPPP/R3K1NR b KQkq -", "a8b8 g1f3 b8a8 f3g1 a8b8 g1f3 b8a8 f3g1".to_string()),
            ("rn2k2r/pppppppp/8/8/8/8/PPPPPPPP/RN2K2R w KQkq -", "h1g1 b8c6 g1h1 c6b8 h1g1 b8c6 g1h1 c6b8".to_string()),
            ("rn2k2r/pppppppp/8/8/8/8/PPPPPPPP/RN2K2R b KQkq -", "h8g8 b1c3 g8h8 c3b1 h8g8 b1c3 g8h8 c3b1".to_string()),
            ("rn2k2r/pppppppp/8/8/8/8/PPPPPPPP/RN2K2R w KQkq -", "e1d1 b8c6 d1e1 c6b8 e1d1 b8c6 d1e1 c6b8".to_string()),
            ("rn2k2r/pppppppp/8/8/8/8/PPPPPPPP/RN2K2R b KQkq -", "e8d8 b1c3 d8e8 c3b1 e8d8 b1c3 d8e8 c3b1".to_string()),
        ])
        .collect();
    for (fen, mv) in shuffles.iter() {
        let mut board = crate::trace::parse_fen(fen).setup();
        cx.node(&mut board);
        for u in mv.split_whitespace() {
            let side = board.turn();
            let cand = match guarded(|| cx.reference.generate_moves(&mut board, side)) {
                Ok(c) => c,
                Err(_) => break,
            };
            let m = match cand.iter().find(|m| m.to_uci() == u) {
                Some(m) => m.clone(),
                None => break,
            };
            if guarded(|| m.apply(&mut board).is_ok()) != Ok(true) {
                break;
            }
            board.toggle_turn();
            cx.node(&mut board);
        }
    }
    let summary = json!({"nodes": cx.nodes, "logged": cx.logged, "move_disagreements": cx.move_diffs, "attack_checks": cx.attack_checks,
        "attack_disagreements": cx.attack_diffs, "panics": cx.panics, "long_lived_cache_hits": cx.long.cache_hit_count()});
    drop(cx);
    file.flush().unwrap();
    println!("{}", summary);
}
