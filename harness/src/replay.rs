//! B1: replay TLC-generated oracle records (module Oracle_Positions) against the real code.
//!
//! For every record the position is set up through the board-editing API, the real code is
//! asked the same questions the spec answered, and the answers are compared field by field.
use crate::util::*;
use chess::board::color::Color;
use chess::board::Board;
use chess::chess_move::algebraic_notation::enumerate_candidate_moves_with_algebraic_notation;
use chess::evaluate::{self, GameEnding};
use chess::game::game::Game;
use chess::game::stockfish_elo::verif_create_chess_move_from_uci;
use chess::move_generator::MoveGenerator;
use serde_json::{json, Map, Value};
use std::collections::{BTreeMap, BTreeSet};
use std::sync::Mutex;

const FRESH_CAP: usize = 1 << 12;

#[derive(Default)]
struct Acc {
    evals: BTreeMap<String, u64>,
    bad: BTreeMap<String, u64>,
    mism: Vec<Value>,
    tags: BTreeMap<String, u64>,
    movekinds: BTreeMap<String, u64>,
    records: u64,
    nontrivial: BTreeMap<String, u64>,
    boards: Vec<String>,
    board_keys: BTreeSet<Vec<i64>>,
}

impl Acc {
    fn eval(&mut self, prop: &str, n: u64) {
        *self.evals.entry(prop.to_string()).or_insert(0) += n;
    }
    fn nontriv(&mut self, prop: &str, n: u64) {
        *self.nontrivial.entry(prop.to_string()).or_insert(0) += n;
    }
    fn bad(&mut self, prop: &str, what: &str, pos: &Pos, detail: Value) {
        let n = self.bad.entry(prop.to_string()).or_insert(0);
        *n += 1;
        if *n <= 40 {
            self.mism.push(json!({"prop": prop, "what": what, "fen": pos.fen(), "pos": pos.to_json(), "detail": detail}));
        }
    }
    fn merge(&mut self, o: Acc) {
        for (k, v) in o.evals {
            *self.evals.entry(k).or_insert(0) += v;
        }
        for (k, v) in o.bad {
            *self.bad.entry(k).or_insert(0) += v;
        }
        for (k, v) in o.tags {
            *self.tags.entry(k).or_insert(0) += v;
        }
        for (k, v) in o.movekinds {
            *self.movekinds.entry(k).or_insert(0) += v;
        }
        for (k, v) in o.nontrivial {
            *self.nontrivial.entry(k).or_insert(0) += v;
        }
        self.mism.extend(o.mism);
        self.records += o.records;
        for b in o.boards {
            self.boards.push(b);
        }
    }
}

fn ending_str(e: &Option<GameEnding>) -> &'static str {
    match e {
        None => "none",
        Some(GameEnding::Checkmate) => "checkmate",
        Some(GameEnding::Stalemate) => "stalemate",
        Some(GameEnding::Draw) => "draw",
    }
}

struct OMove {
    m: Mv,
    succ: Vec<i64>,
    uci: Option<String>,
    san: Option<String>,
    eff: Option<String>,
}

fn parse_moves(rec: &Value) -> Vec<OMove> {
    rec["mv"]
        .as_array()
        .unwrap()
        .iter()
        .map(|a| {
            let arr = a.as_array().unwrap();
            OMove {
                m: Mv::from_json(a),
                succ: arr[5].as_array().unwrap().iter().map(|x| x.as_i64().unwrap()).collect(),
                uci: arr.get(6).and_then(|x| x.as_str()).map(|s| s.to_string()),
                san: arr.get(7).and_then(|x| x.as_str()).map(|s| s.to_string()),
                eff: arr.get(8).and_then(|x| x.as_str()).map(|s| s.to_string()),
            }
        })
        .collect()
}

fn move_kind_tag(m: &Mv, pos: &Pos) -> String {
    let c = if pos.turn == 1 { "w" } else { "b" };
    let piece_kind = (pos.b[(m.f - 1) as usize] - 1) % 6 + 1;
    let dbl = m.k == 'S' && piece_kind == 1 && (m.t as i32 - m.f as i32).abs() == 16;
    match m.k {
        'C' => format!("{}:{}", if m.t > m.f { "O-O" } else { "O-O-O" }, c),
        'E' => format!("ep:{}", c),
        'P' => format!("promo{}{}:{}", if m.c != 0 { "x" } else { "" }, ["", "N", "B", "R", "Q"][(m.p - 1) as usize], c),
        _ if dbl => format!("double:{}", c),
        _ if m.c != 0 => format!("capture:{}", c),
        _ => format!("quiet:{}", c),
    }
}

fn pawn_attack_squares(pos: &Pos, white: bool) -> BTreeSet<u32> {
    let mut s = BTreeSet::new();
    for i in 0..64usize {
        let x = pos.b[i];
        if (white && x == 1) || (!white && x == 7) {
            let f = (i % 8) as i32;
            let r = (i / 8) as i32 + if white { 1 } else { -1 };
            for df in [-1, 1] {
                let nf = f + df;
                if (0..8).contains(&nf) && (0..8).contains(&r) {
                    s.insert((r * 8 + nf + 1) as u32);
                }
            }
        }
    }
    s
}

fn one_record(rec: &Value, props: &BTreeSet<String>, long: &mut MoveGenerator, acc: &mut Acc, idx: usize, game_sample: usize) {
    let key: Vec<i64> = rec["k"].as_array().unwrap().iter().map(|x| x.as_i64().unwrap()).collect();
    let pos = Pos::from_key(&key);
    let side = color_of(pos.turn as i64);
    let omoves = parse_moves(rec);
    let oracle_set: BTreeSet<Mv> = omoves.iter().map(|o| o.m.clone()).collect();
    let chk = rec["chk"].as_bool().unwrap();
    let verdict = rec["v"].as_str().unwrap().to_string();
    acc.records += 1;
    if let Some(tags) = rec["tags"].as_array() {
        for t in tags {
            *acc.tags.entry(t.as_str().unwrap().to_string()).or_insert(0) += 1;
        }
    }
    let has = |p: &str| props.contains(p);

    // ---- C01: a freshly created generator returns exactly the legal moves, no duplicates
    if has("C01") {
        acc.eval("C01", 1);
        if oracle_set.len() > 1 {
            acc.nontriv("C01", 1);
        }
        let r = guarded(|| {
            let mut board = pos.setup();
            let mut gen = MoveGenerator::with_cache_capacity(FRESH_CAP);
            let list = gen.generate_moves(&mut board, side);
            let after = Pos::of_board(&board);
            (list.iter().map(Mv::of).collect::<Vec<_>>(), after)
        });
        match r {
            Err(p) => acc.bad("C01", "panic in generate_moves", &pos, json!(p)),
            Ok((list, after)) => {
                let got: BTreeSet<Mv> = list.iter().cloned().collect();
                if got != oracle_set {
                    let extra: Vec<Value> = got.difference(&oracle_set).map(|m| m.to_json()).collect();
                    let missing: Vec<Value> = oracle_set.difference(&got).map(|m| m.to_json()).collect();
                    acc.bad("C01", "move set differs from Legal(pos)", &pos, json!({"extra": extra, "missing": missing}));
                } else if got.len() != list.len() {
                    acc.bad("C01", "duplicate moves", &pos, json!({"listed": list.len(), "distinct": got.len()}));
                }
                if after != pos {
                    acc.bad("C04", "generate_moves changed the board", &pos, json!({"after": after.to_json()}));
                }
            }
        }
    }

    // ---- C01 on positions REACHED by the code's own apply: after every legal move that touches the hidden
    // state (castling rights, en-passant target: king / rook moves, captures of rooks, double steps, castles,
    // en passant, promotions) the moves a fresh generator returns on the board the CODE produced are logged
    // together with the SPEC's successor; TLC (Trace_Records "moves") compares them with Legal(successor)
    if has("C01") && REACHED.load(std::sync::atomic::Ordering::Relaxed) && rec["ply"].as_u64().unwrap_or(0) <= 1 {
        for o in &omoves {
            let mover_kind = (pos.b[(o.m.f - 1) as usize] - 1) % 6 + 1;
            let interesting = o.m.k != 'S' || mover_kind == 6 || mover_kind == 4 || o.m.c == 4
                || (mover_kind == 1 && (o.m.t as i64 - o.m.f as i64).abs() == 16);
            if !interesting {
                continue;
            }
            let mut want = Pos::from_key(&o.succ);
            want.turn = 1 - want.turn;
            if !acc.board_keys.insert(want.key()) {
                continue;
            }
            let r = guarded(|| {
                let mut board = pos.setup();
                let m = o.m.to_chess_move(side);
                if m.apply(&mut board).is_err() {
                    return None;
                }
                board.toggle_turn();
                let mut gen = MoveGenerator::with_cache_capacity(FRESH_CAP);
                let list = gen.generate_moves(&mut board, side.opposite());
                Some(list.iter().map(|m| Mv::of(m).to_json()).collect::<Vec<_>>())
            });
            acc.eval("C01", 1);
            let line = match r {
                Ok(Some(mv)) => json!({"t": "moves", "pos": want.to_json(), "mv": mv, "via": o.m.to_json(), "from": pos.fen()}).to_string(),
                Ok(None) => continue,
                Err(p) => json!({"t": "panic", "pos": want.to_json(), "where": format!("generate_moves on the board reached by a legal move: {}", p), "via": o.m.to_json(), "from": pos.fen()}).to_string(),
            };
            acc.boards.push(line);
        }
    }

    // ---- C04 (queries): generation, annotation, notation, check test, counting and a shallow search must
    // leave the caller's board exactly as they found it -- on EVERY oracle state (pinned en passant,
    // castling through check, promotions in check ... are where a filter might "tidy up" the board)
    if has("C04") {
        let queries: [(&str, Box<dyn Fn(&mut chess::board::Board, &mut MoveGenerator)>); 5] = [
            ("generate_moves", Box::new(move |b, g| { g.generate_moves(b, side); })),
            ("generate_moves_and_lazily_update_chess_move_effects", Box::new(move |b, g| { g.generate_moves_and_lazily_update_chess_move_effects(b, side); })),
            ("enumerate_candidate_moves_with_algebraic_notation", Box::new(move |b, g| { enumerate_candidate_moves_with_algebraic_notation(b, side, g); })),
            ("player_is_in_check + game_ending", Box::new(move |b, g| { evaluate::player_is_in_check(b, g, side); evaluate::game_ending(b, g, side); })),
            ("count_positions(1)", Box::new(move |b, g| { g.count_positions(1, b, side); })),
        ];
        for (name, q) in queries.iter() {
            if *name == "count_positions(1)" && idx % 16 != 0 {
                continue; // (creates one big generator per root move: sampled)
            }
            let r = guarded(|| {
                let mut board = pos.setup_clocks(5, 11);
                let before = (obs(&board), summaries(&board));
                let mut gen = MoveGenerator::with_cache_capacity(FRESH_CAP);
                q(&mut board, &mut gen);
                let after = (obs(&board), summaries(&board));
                (before, after)
            });
            acc.eval("C04", 1);
            if let Ok((before, after)) = r {
                if before != after {
                    acc.bad("C04", "a query changed the caller's board", &pos, json!({"query": name, "before": before.0, "after": after.0}));
                }
            }
        }
    }

    // ---- C12: the board after every legal move of every oracle state, with its redundant summaries,
    // is logged for TLC (Trace_Records "board": representation invariant, summaries = squares)
    if has("C12") {
        for o in &omoves {
            let r = guarded(|| {
                let mut board = pos.setup();
                let m = o.m.to_chess_move(side);
                if m.apply(&mut board).is_err() {
                    return None;
                }
                Some((Pos::of_board(&board).key(), json!({"t": "board", "obs": obs(&board), "sum": summaries(&board)}).to_string()))
            });
            acc.eval("C12", 1);
            if let Ok(Some((k, line))) = r {
                if acc.board_keys.insert(k) {
                    acc.boards.push(line);
                }
            }
        }
    }

    // ---- C03 (+ C04 one level): apply every legal move, compare with the spec successor, undo
    if has("C03") || has("C04") {
        for o in &omoves {
            *acc.movekinds.entry(move_kind_tag(&o.m, &pos)).or_insert(0) += 1;
            let want = Pos::from_key(&o.succ);
            let r = guarded(|| {
                let mut board = pos.setup_clocks(7, 9);
                let before = obs(&board);
                let before_sum = summaries(&board);
                let m = o.m.to_chess_move(side);
                let res = m.apply(&mut board);
                let ok = res.is_ok();
                let after = Pos::of_board(&board);
                let (undo_ok, restored, restored_sum) = if ok {
                    let u = m.undo(&mut board);
                    (u.is_ok(), obs(&board), summaries(&board))
                } else {
                    (true, before.clone(), before_sum.clone())
                };
                (ok, format!("{:?}", res.err()), after, undo_ok, before, restored, before_sum, restored_sum)
            });
            if has("C03") {
                acc.eval("C03", 1);
                if o.m.k != 'S' || o.m.c != 0 {
                    acc.nontriv("C03", 1);
                }
            }
            if has("C04") {
                acc.eval("C04", 1);
            }
            match r {
                Err(p) => {
                    if has("C03") {
                        acc.bad("C03", "panic while applying a legal move", &pos, json!({"move": o.m.to_json(), "panic": p}));
                    }
                }
                Ok((ok, err, after, undo_ok, before, restored, bs, rs)) => {
                    if has("C03") {
                        if !ok {
                            acc.bad("C03", "apply failed for a legal move", &pos, json!({"move": o.m.to_json(), "error": err}));
                        } else if after != want {
                            acc.bad("C03", "successor differs from SuccNoFlip", &pos, json!({"move": o.m.to_json(), "got": after.to_json(), "got_fen": after.fen(), "want": want.to_json(), "want_fen": want.fen()}));
                        }
                    }
                    if has("C04") && ok {
                        if !undo_ok {
                            acc.bad("C04", "undo failed", &pos, json!({"move": o.m.to_json()}));
                        } else if before != restored || bs != rs {
                            acc.bad("C04", "apply+undo did not restore the observable state", &pos, json!({"move": o.m.to_json(), "before": before, "after": restored}));
                        }
                    }
                }
            }
        }
    }

    // ---- C06: check / mate / stalemate verdicts and move annotations, fresh and long-lived generator
    if has("C06") {
        for which in 0..2 {
            let r = guarded(|| {
                let mut board = pos.setup();
                let mut fresh;
                let gen: &mut MoveGenerator = if which == 0 {
                    fresh = MoveGenerator::with_cache_capacity(FRESH_CAP);
                    &mut fresh
                } else {
                    &mut *long
                };
                let c = evaluate::player_is_in_check(&board, gen, side);
                let e = evaluate::game_ending(&mut board, gen, side);
                let mate = evaluate::player_is_in_checkmate(&mut board, gen, side);
                let ann = gen.generate_moves_and_lazily_update_chess_move_effects(&mut board, side);
                let effs: Vec<(Mv, &'static str)> = ann.iter().map(|m| (Mv::of(m), effect_str(m.effect()))).collect();
                (c, ending_str(&e), mate, effs, Pos::of_board(&board))
            });
            let label = if which == 0 { "fresh generator" } else { "long-lived generator" };
            acc.eval("C06", 1);
            if chk || verdict != "none" {
                acc.nontriv("C06", 1);
            }
            match r {
                Err(p) => acc.bad("C06", "panic in verdict queries", &pos, json!({"gen": label, "panic": p})),
                Ok((c, e, mate, effs, after)) => {
                    if c != chk {
                        acc.bad("C06", "in-check verdict differs", &pos, json!({"gen": label, "got": c, "want": chk}));
                    }
                    if e != verdict {
                        acc.bad("C06", "game-ending verdict differs", &pos, json!({"gen": label, "got": e, "want": verdict}));
                    }
                    if mate != (verdict == "checkmate") {
                        acc.bad("C06", "player_is_in_checkmate differs", &pos, json!({"gen": label, "got": mate, "want": verdict}));
                    }
                    if after != pos {
                        acc.bad("C04", "verdict queries changed the board", &pos, json!({"gen": label}));
                    }
                    for (m, e) in effs {
                        if let Some(o) = omoves.iter().find(|o| o.m == m) {
                            if let Some(want) = &o.eff {
                                acc.eval("C06", 1);
                                if !want.is_empty() {
                                    acc.nontriv("C06", 1);
                                }
                                if want != e {
                                    acc.bad("C06", "move annotation differs", &pos, json!({"gen": label, "move": m.to_json(), "got": e, "want": want}));
                                }
                            }
                        }
                    }
                }
            }
        }
        // the Game-level entry point is expensive to construct: sampled, always on terminal positions
        if verdict != "none" || (game_sample > 0 && idx % game_sample == 0) {
            let r = guarded(|| {
                let board = pos.setup();
                let mut game = Game::from_board(board, 1);
                ending_str(&game.check_game_over_for_current_turn())
            });
            acc.eval("C06", 1);
            match r {
                Err(p) => acc.bad("C06", "panic in Game::check_game_over_for_current_turn", &pos, json!(p)),
                Ok(e) => {
                    if e != verdict {
                        acc.bad("C06", "Game::check_game_over_for_current_turn differs", &pos, json!({"got": e, "want": verdict}));
                    }
                }
            }
        }
    }

    // ---- C13: SAN labels, label by label, and pairwise distinctness
    if has("C13") && omoves.iter().all(|o| o.san.is_some()) {
        let r = guarded(|| {
            let mut board = pos.setup();
            let mut gen = MoveGenerator::with_cache_capacity(FRESH_CAP);
            enumerate_candidate_moves_with_algebraic_notation(&mut board, side, &mut gen)
                .iter()
                .map(|(m, s)| (Mv::of(m), s.clone()))
                .collect::<Vec<_>>()
        });
        match r {
            Err(p) => {
                acc.eval("C13", 1);
                acc.bad("C13", "panic while enumerating notation", &pos, json!(p))
            }
            Ok(list) => {
                let mut seen: BTreeMap<String, Mv> = BTreeMap::new();
                for (m, s) in &list {
                    acc.eval("C13", 1);
                    if let Some(prev) = seen.get(s) {
                        if prev != m {
                            acc.bad("C13", "two legal moves share a label", &pos, json!({"label": s, "a": prev.to_json(), "b": m.to_json()}));
                        }
                    }
                    seen.insert(s.clone(), m.clone());
                    if let Some(o) = omoves.iter().find(|o| &o.m == m) {
                        let want = o.san.as_ref().unwrap();
                        if want.len() > 3 && !want.starts_with('O') {
                            acc.nontriv("C13", 1);
                        }
                        if want != s {
                            acc.bad("C13", "label differs from SAN", &pos, json!({"move": m.to_json(), "got": s, "want": want}));
                        }
                    }
                }
                let got: BTreeSet<Mv> = list.iter().map(|x| x.0.clone()).collect();
                if got != oracle_set {
                    acc.bad("C13", "labelled move list is not the legal move list", &pos, json!({"got": got.len(), "want": oracle_set.len()}));
                }
            }
        }
    }

    // ---- C19: UCI text, distinctness, and the Stockfish-bridge parser round trip
    if has("C19") && omoves.iter().all(|o| o.uci.is_some()) {
        let mut seen: BTreeMap<String, Mv> = BTreeMap::new();
        for o in &omoves {
            acc.eval("C19", 1);
            if o.m.k != 'S' {
                acc.nontriv("C19", 1);
            }
            let r = guarded(|| {
                let board = pos.setup();
                let m = o.m.to_chess_move(side);
                let text = m.to_uci();
                let back = verif_create_chess_move_from_uci(&text, &board);
                let same = back == m;
                let mut b1 = board.clone();
                let mut b2 = board.clone();
                let r1 = m.apply(&mut b1).is_ok();
                let r2 = back.apply(&mut b2).is_ok();
                (text, Mv::of(&back), same, r1 && r2 && obs(&b1) == obs(&b2))
            });
            match r {
                Err(p) => acc.bad("C19", "panic in to_uci / bridge parser", &pos, json!({"move": o.m.to_json(), "panic": p})),
                Ok((text, back, same, same_effect)) => {
                    let want = o.uci.as_ref().unwrap();
                    if &text != want {
                        acc.bad("C19", "UCI text differs", &pos, json!({"move": o.m.to_json(), "got": text, "want": want}));
                    }
                    if let Some(prev) = seen.get(&text) {
                        if prev != &o.m {
                            acc.bad("C19", "two legal moves share a UCI string", &pos, json!({"text": text}));
                        }
                    }
                    seen.insert(text.clone(), o.m.clone());
                    if !same || back != o.m || !same_effect {
                        acc.bad("C19", "bridge parser does not reconstruct the move", &pos, json!({"move": o.m.to_json(), "text": text, "parsed": back.to_json(), "same_effect": same_effect}));
                    }
                }
            }
        }
    }

    // ---- C19 on the moves as the engine hands them out (check / mate annotation computed): same text
    if has("C19") && omoves.iter().all(|o| o.uci.is_some()) {
        let r = guarded(|| {
            let mut board = pos.setup();
            let mut gen = MoveGenerator::with_cache_capacity(FRESH_CAP);
            let list = gen.generate_moves_and_lazily_update_chess_move_effects(&mut board, side);
            list.iter().map(|m| (Mv::of(m), m.to_uci())).collect::<Vec<_>>()
        });
        if let Ok(list) = r {
            for (mv, text) in list {
                acc.eval("C19", 1);
                if let Some(o) = omoves.iter().find(|o| o.m == mv) {
                    let want = o.uci.as_ref().unwrap();
                    if &text != want {
                        acc.bad("C19", "UCI text of an annotated move differs", &pos, json!({"move": mv.to_json(), "got": text, "want": want}));
                    }
                }
            }
        }
    }

    // ---- attack maps (C11 on real positions): compare on squares not occupied by the attacker
    if has("C11") && rec.get("aw").is_some() {
        // ONE generator answers for both colours on the same board (in either order): the answers must not mix
        let mut both = MoveGenerator::with_cache_capacity(FRESH_CAP);
        let order = if idx % 2 == 0 { [(true, "aw"), (false, "ab")] } else { [(false, "ab"), (true, "aw")] };
        for (white, field) in order {
            let want: BTreeSet<u32> = rec[field].as_array().unwrap().iter().map(|x| x.as_u64().unwrap() as u32).collect();
            let c = if white { Color::White } else { Color::Black };
            let r = guarded(|| {
                let board = pos.setup();
                squares_of(both.get_attack_targets(&board, c))
            });
            acc.eval("C11", 1);
            match r {
                Err(p) => acc.bad("C11", "panic in get_attack_targets", &pos, json!(p)),
                Ok(list) => {
                    let got: BTreeSet<u32> = list.into_iter().collect();
                    let own = |s: u32| {
                        let x = pos.b[(s - 1) as usize];
                        x != 0 && ((x <= 6) == white)
                    };
                    let pawn = pawn_attack_squares(&pos, white);
                    let diff: Vec<u32> = got.symmetric_difference(&want).cloned().filter(|s| !own(*s) && !pawn.contains(s)).collect();
                    if !diff.is_empty() {
                        acc.bad("C11", "attack map differs on squares only sliders/knights/kings can attack", &pos, json!({"colour": field, "squares": diff}));
                    }
                }
            }
        }
    }
}

pub static REACHED: std::sync::atomic::AtomicBool = std::sync::atomic::AtomicBool::new(false);

pub fn main(args: &[String]) {
    let path = &args[0];
    if has_flag(args, "--reached") {
        REACHED.store(true, std::sync::atomic::Ordering::Relaxed);
    }
    let props: BTreeSet<String> = arg_val(args, "--props").unwrap_or_default().split(',').filter(|s| !s.is_empty()).map(|s| s.to_string()).collect();
    let threads = arg_u64(args, "--threads", 16) as usize;
    let game_sample = arg_u64(args, "--game-sample", 0) as usize;
    // stream the oracle file: a reader hands out batches of raw lines, workers parse and replay them
    // (thorough-tier oracles are gigabytes; nothing is held in memory beyond the batches in flight)
    use std::io::BufRead;
    let total = Mutex::new(Acc::default());
    let (tx, rx) = std::sync::mpsc::sync_channel::<(usize, Vec<String>)>(threads * 2);
    let rx = Mutex::new(rx);
    std::thread::scope(|s| {
        for _tid in 0..threads {
            let props = &props;
            let total = &total;
            let rx = &rx;
            s.spawn(move || {
                let mut acc = Acc::default();
                let mut long = MoveGenerator::new();
                loop {
                    let batch = {
                        let g = rx.lock().unwrap();
                        g.recv()
                    };
                    let (base, lines) = match batch {
                        Ok(b) => b,
                        Err(_) => break,
                    };
                    for (j, l) in lines.iter().enumerate() {
                        let rec: Option<Value> = if l.starts_with('"') {
                            serde_json::from_str::<String>(l).ok().and_then(|inner| serde_json::from_str::<Value>(&inner).ok())
                        } else if l.starts_with('{') {
                            serde_json::from_str::<Value>(l).ok()
                        } else {
                            None
                        };
                        if let Some(rec) = rec {
                            one_record(&rec, props, &mut long, &mut acc, base + j, game_sample);
                        }
                    }
                }
                total.lock().unwrap().merge(acc);
            });
        }
        let f = std::fs::File::open(path).unwrap_or_else(|e| panic!("open {}: {}", path, e));
        let r = std::io::BufReader::with_capacity(1 << 20, f);
        let mut batch: Vec<String> = Vec::with_capacity(64);
        let mut idx = 0usize;
        let mut base = 0usize;
        for l in r.lines() {
            let l = l.unwrap();
            if !(l.starts_with('"') || l.starts_with('{')) {
                continue;
            }
            batch.push(l);
            idx += 1;
            if batch.len() == 64 {
                tx.send((base, std::mem::replace(&mut batch, Vec::with_capacity(64)))).unwrap();
                base = idx;
            }
        }
        if !batch.is_empty() {
            tx.send((base, batch)).unwrap();
        }
        drop(tx);
    });
    let t = total.into_inner().unwrap();
    if let Some(bp) = arg_val(args, "--boards-out") {
        use std::io::Write;
        let mut f = std::io::BufWriter::new(std::fs::File::create(bp).unwrap());
        let mut seen = BTreeSet::new();
        for b in t.boards.iter() {
            if seen.insert(b.clone()) {
                writeln!(f, "{}", b).unwrap();
            }
        }
        f.flush().unwrap();
    }
    let mut out = Map::new();
    out.insert("records".into(), json!(t.records));
    out.insert("evaluations".into(), json!(t.evals));
    out.insert("nontrivial".into(), json!(t.nontrivial));
    out.insert("violations".into(), json!(t.bad));
    out.insert("mismatches".into(), json!(t.mism));
    out.insert("tags".into(), json!(t.tags));
    out.insert("movekinds".into(), json!(t.movekinds));
    println!("{}", Value::Object(out));
}

#[allow(dead_code)]
fn _unused(_b: &Board) {}
