//! C07 C08 C09: the parallel alpha-beta search.
//!  search-basic : legal move / declared errors / board untouched, all depths and pool sizes (Trace_Engine "Search")
//!  search-exact : (move, score) of searches for comparison with minimax over the TLC state graph
//!  static-eval  : the engine's static score of every node of a TLC graph + mate scores by depth
//!  search-sched : the same search under many controlled schedules (token-passing scheduler on hook H2)
use crate::util::*;
use chess::alpha_beta_searcher::{alpha_beta_search, SearchContext, SearchError};
use chess::board::Board;
use chess::evaluate;
use chess::move_generator::MoveGenerator;
use chess::verif::{self, Event, Kind};
use serde_json::{json, Value};
use std::cell::Cell;
use std::io::Write;
use std::sync::{mpsc, Arc, Condvar, Mutex};
use std::time::Duration;

fn search_once(pos: &Pos, hm: u64, depth: u8, threads: usize, ctx: Option<SearchContext>) -> (Value, Value, Option<SearchContext>, Option<i16>) {
    search_once_reg(pos, hm, 0, depth, threads, ctx)
}

/// `registrations`: how often the root position is registered for repetition before the search
static WATCHDOG_SECS: std::sync::atomic::AtomicU64 = std::sync::atomic::AtomicU64::new(300);

fn search_once_reg(pos: &Pos, hm: u64, registrations: u32, depth: u8, threads: usize, ctx: Option<SearchContext>) -> (Value, Value, Option<SearchContext>, Option<i16>) {
    // run in a helper thread so that a hang is observed instead of hanging the harness
    let (tx, rx) = mpsc::channel();
    let p = pos.clone();
    std::thread::spawn(move || {
        let pool = rayon::ThreadPoolBuilder::new().num_threads(threads).build().unwrap();
        let mut board = p.setup_clocks(hm, 1);
        for _ in 0..registrations {
            board.count_current_position();
        }
        let mut ctx = ctx.unwrap_or_else(|| SearchContext::new(depth));
        let r = guarded(|| {
            pool.install(|| {
                let mut gen = MoveGenerator::new();
                alpha_beta_search(&mut ctx, &mut board, &mut gen)
            })
        });
        let res = match r {
            Ok(Ok(m)) => json!({"kind": "ok", "m": Mv::of(&m).to_json()}),
            Ok(Err(SearchError::NoAvailableMoves)) => json!({"kind": "NoAvailableMoves"}),
            Ok(Err(SearchError::DepthTooLow)) => json!({"kind": "DepthTooLow"}),
            Err(p) => json!({"kind": "panic", "msg": p}),
        };
        let score = ctx.last_score();
        let _ = tx.send((res, obs(&board), Some(ctx), score));
    });
    match rx.recv_timeout(Duration::from_secs(WATCHDOG_SECS.load(std::sync::atomic::Ordering::Relaxed))) {
        Ok(x) => x,
        Err(_) => {
            let mut b = pos.setup_clocks(hm, 1);
            for _ in 0..registrations {
                b.count_current_position();
            }
            (json!({"kind": "timeout"}), obs(&b), None, None)
        }
    }
}

/// search-basic <positions.ndjson> <out> --depths 0,1,2,3 --pools 1,2,4,16
pub fn basic(args: &[String]) {
    let positions = read_ndjson(&args[0]);
    let depths: Vec<u8> = arg_val(args, "--depths").unwrap_or("0,1,2".into()).split(',').map(|s| s.parse().unwrap()).collect();
    let pools: Vec<usize> = arg_val(args, "--pools").unwrap_or("1,4".into()).split(',').map(|s| s.parse().unwrap()).collect();
    let max_men_deep = arg_u64(args, "--max-men-deep", 10) as u32;
    let mut file = std::io::BufWriter::new(std::fs::File::create(&args[1]).unwrap());
    writeln!(file, "{}", crate::trace::tables_record()).unwrap();
    let mut events = 0u64;
    let mut searches = 0u64;
    let mut hung = false;
    'outer: for (i, pv) in positions.iter().enumerate() {
        if (i as u64) < arg_u64(args, "--skip", 0) {
            continue;
        }
        let pos = Pos::from_json(pv);
        // histories matter too: every third root carries a half-move clock at / beyond the draw threshold,
        // every fifth has been registered three times (a drawn game in which the search is still asked)
        let hm: u64 = if i % 3 == 1 { [99u64, 100, 101, 150][(i / 3) % 4] } else { 0 };
        let regs: u32 = if i % 5 == 2 { 3 } else { 0 };
        let mut board = pos.setup_clocks(hm, 1);
        writeln!(file, "{}", json!({"ev": "Reset", "obs": obs(&board)})).unwrap();
        events += 1;
        for _ in 0..regs {
            let n = board.count_current_position();
            writeln!(file, "{}", json!({"ev": "Count", "res": n as u64, "panic": "", "obs": obs(&board)})).unwrap();
            events += 1;
        }
        let men = pos.b.iter().filter(|&&x| x != 0).count() as u32;
        for &d in &depths {
            if d >= 3 && men > max_men_deep {
                continue;
            }
            // rotate the pool sizes over the positions; every size is used with every depth
            let t = pools[(i + d as usize) % pools.len()];
            marker(&json!({"index": i, "fen": pos.fen(), "depth": d, "threads": t, "hm": hm, "registrations": regs}));
            file.flush().unwrap();
            let (res, o, _, _) = search_once_reg(&pos, hm, regs, d, t, None);
            let timeout = res["kind"] == "timeout";
            writeln!(file, "{}", json!({"ev": "Search", "depth": d, "threads": t, "res": res, "obs": o})).unwrap();
            events += 1;
            searches += 1;
            if timeout {
                hung = true;
                break 'outer;
            }
        }
    }
    file.flush().unwrap();
    println!("{}", json!({"events": events, "histories": positions.len(), "searches": searches, "hung": hung}));
    if hung {
        std::process::exit(0);
    }
}

/// static-eval <graph-keys.ndjson> <out.json>: keys -> engine static score; plus mate scores by depth
pub fn static_eval(args: &[String]) {
    let keys = read_ndjson(&args[0]);
    let mut out = std::io::BufWriter::new(std::fs::File::create(&args[1]).unwrap());
    let mut gen = MoveGenerator::with_cache_capacity(1 << 10);
    let mut mate = serde_json::Map::new();
    for (name, fen) in [("white_mated", "8/8/8/8/8/6k1/6q1/7K w - -"), ("black_mated", "7k/6Q1/6K1/8/8/8/8/8 b - -"), ("stalemate", "7k/5Q2/6K1/8/8/8/8/8 b - -")] {
        let pos = crate::trace::parse_fen(fen);
        let mut board = pos.setup();
        let turn = board.turn();
        let sc: Vec<i64> = (0..=12u8).map(|d| evaluate::score(&mut board, &mut gen, turn, d) as i64).collect();
        mate.insert(name.into(), json!(sc));
    }
    writeln!(out, "{}", json!({"mate": mate})).unwrap();
    for k in keys.iter() {
        let key: Vec<i64> = k.as_array().unwrap().iter().map(|x| x.as_i64().unwrap()).collect();
        let pos = Pos::from_key(&key);
        let board = pos.setup();
        let s = guarded(|| evaluate::board_material_score(&board) as i64);
        writeln!(out, "{}", json!({"k": key, "s": s.ok()})).unwrap();
    }
    out.flush().unwrap();
    println!("{}", json!({"nodes": keys.len()}));
}

thread_local! { static FAMILY: Cell<u8> = Cell::new(0); static RETRO: Cell<u8> = Cell::new(1); }

fn legal_count(pos: &Pos) -> usize {
    let mut b = pos.setup();
    let t = b.turn();
    MoveGenerator::with_cache_capacity(16).generate_moves(&mut b, t).len()
}
fn in_check(pos: &Pos, white: bool) -> bool {
    let b = pos.setup();
    let c = if white { chess::board::color::Color::White } else { chess::board::color::Color::Black };
    evaluate::player_is_in_check(&b, &mut MoveGenerator::with_cache_capacity(16), c)
}

/// A position a given number of plies BEFORE a stalemate (or mate) of a lone king: the terminal
/// position then sits exactly on the horizon of a search of that depth.  Built backwards (retro
/// moves) with the code's own generator as a heuristic; the specification's state graph decides
/// everything that is compared afterwards.
fn random_before_terminal(rng: &mut Rng, plies: u8) -> Option<Pos> {
    let strong_white = rng.chance(1, 2);
    let (lone, sk) = if strong_white { (12u8, 6u8) } else { (6u8, 12u8) };
    let off = if strong_white { 0u8 } else { 6u8 };
    let mut b = [0u8; 64];
    let edge = [0usize, 7, 56, 63, 1, 6, 8, 15, 48, 55, 57, 62, 3, 4, 24, 31, 32, 39, 59, 60][rng.below(20)];
    b[edge] = lone;
    let dist = |a: usize, c: usize| ((a % 8) as i32 - (c % 8) as i32).abs().max(((a / 8) as i32 - (c / 8) as i32).abs());
    let ks = rng.below(64);
    if ks == edge || dist(ks, edge) < 2 {
        return None;
    }
    b[ks] = sk;
    let extra = 1 + rng.below(2);
    for _ in 0..extra {
        let kind = [5u8, 4, 1, 5, 2, 3][rng.below(6)];
        let s = rng.below(64);
        if b[s] != 0 || (kind == 1 && (s < 8 || s >= 56)) {
            return None;
        }
        b[s] = kind + off;
    }
    // terminal position: the lone side to move, no legal move (stalemate or mate)
    let term = Pos { b, turn: if strong_white { 0 } else { 1 }, rights: 0, ep: 0 };
    if in_check(&term, strong_white) || legal_count(&term) != 0 {
        return None;
    }
    let mut pos = term;
    for step in 0..plies {
        let strong_to_unmove = step % 2 == 0;
        let mut cands: Vec<Pos> = vec![];
        if strong_to_unmove {
            // take a strong man (not a pawn) back to a square it could have come from
            for s in 0..64usize {
                let x = pos.b[s];
                if x == 0 || (x <= 6) != strong_white || x == 1 + off {
                    continue;
                }
                for s0 in 0..64usize {
                    if pos.b[s0] != 0 {
                        continue;
                    }
                    let mut nb = pos.b;
                    nb[s] = 0;
                    nb[s0] = x;
                    let p = Pos { b: nb, turn: if strong_white { 1 } else { 0 }, rights: 0, ep: 0 };
                    if in_check(&p, !strong_white) {
                        continue;
                    }
                    let mut bd = p.setup();
                    let t = bd.turn();
                    let ms = MoveGenerator::with_cache_capacity(16).generate_moves(&mut bd, t);
                    if ms.iter().any(|m| sq_of(m.from_square()) as usize == s0 + 1 && sq_of(m.to_square()) as usize == s + 1 && m.captures().is_none()) {
                        cands.push(p);
                    }
                }
            }
        } else {
            // the lone king came from a neighbouring square
            let k = pos.b.iter().position(|&x| x == lone).unwrap();
            for k0 in 0..64usize {
                if pos.b[k0] != 0 || dist(k0, k) != 1 {
                    continue;
                }
                let mut nb = pos.b;
                nb[k] = 0;
                nb[k0] = lone;
                let p = Pos { b: nb, turn: if strong_white { 0 } else { 1 }, rights: 0, ep: 0 };
                if in_check(&p, strong_white) {
                    continue;
                }
                let mut bd = p.setup();
                let t = bd.turn();
                let ms = MoveGenerator::with_cache_capacity(16).generate_moves(&mut bd, t);
                if ms.iter().any(|m| sq_of(m.from_square()) as usize == k0 + 1 && sq_of(m.to_square()) as usize == k + 1) {
                    cands.push(p);
                }
            }
        }
        if cands.is_empty() {
            return None;
        }
        pos = cands[rng.below(cands.len())].clone();
    }
    if legal_count(&pos) == 0 {
        return None;
    }
    Some(pos)
}

fn random_sparse(rng: &mut Rng, max_extra: usize) -> Pos {
    loop {
        let mut b = [0u8; 64];
        let family = FAMILY.with(|f| f.get());
        if family == 3 {
            // K + (Q or R) against the lone king: deep forced mates of different lengths
            let strong_white = rng.chance(1, 2);
            // the lone king stands on the edge with the other king close by: mates in 2 and 3 abound
            let edge: Vec<usize> = (0..64).filter(|s| s % 8 == 0 || s % 8 == 7 || s / 8 == 0 || s / 8 == 7).collect();
            let lone = edge[rng.below(edge.len())];
            let strong = rng.below(64);
            let x = rng.below(64);
            let d = ((lone % 8) as i32 - (strong % 8) as i32).abs().max(((lone / 8) as i32 - (strong / 8) as i32).abs());
            if d < 2 || d > 3 || x == lone || x == strong {
                continue;
            }
            let (wk, bk) = if strong_white { (strong, lone) } else { (lone, strong) };
            b[wk] = 6;
            b[bk] = 12;
            let kind = if rng.chance(3, 4) { 5 } else { 4 };
            b[x] = if strong_white { kind } else { kind + 6 };
            // the defender moves first (the attacker's mates are then at odd distances below the root)
            let turn = if strong_white { 0 } else { 1 };
            let pos = Pos { b, turn, rights: 0, ep: 0 };
            let board = pos.setup();
            let mut g = MoveGenerator::with_cache_capacity(16);
            if evaluate::player_is_in_check(&board, &mut g, board.turn().opposite()) {
                continue;
            }
            let mut b2 = board.clone();
            let t = b2.turn();
            if g.generate_moves(&mut b2, t).is_empty() {
                continue;
            }
            return pos;
        }
        if family == 2 {
            if let Some(p) = random_before_terminal(rng, RETRO.with(|r| r.get())) {
                return p;
            }
            continue;
        }
        if family == 4 {
            // pawn storms: pawns on their home rank next to enemy pawns that have crossed the middle, for both
            // colours -- double steps, live and expired en-passant rights and their transpositions fill the tree
            let wk = rng.below(64);
            let mut bk = rng.below(64);
            while bk == wk || ((bk % 8) as i32 - (wk % 8) as i32).abs() <= 1 && ((bk / 8) as i32 - (wk / 8) as i32).abs() <= 1 {
                bk = rng.below(64);
            }
            b[wk] = 6;
            b[bk] = 12;
            for (home, far, me, opp) in [(1usize, 3usize, 1u8, 7u8), (6, 4, 7, 1)] {
                let n = 1 + rng.below(3);
                for _ in 0..n {
                    let f = rng.below(8);
                    if b[home * 8 + f] == 0 {
                        b[home * 8 + f] = me;
                        let g = if rng.chance(1, 2) { f + 1 } else { f.wrapping_sub(1) };
                        if g < 8 && b[far * 8 + g] == 0 && rng.chance(3, 4) {
                            b[far * 8 + g] = opp;
                        }
                    }
                }
            }
            if rng.chance(1, 2) {
                let s = rng.below(64);
                if b[s] == 0 {
                    b[s] = [2u8, 3, 4, 8, 9, 10][rng.below(6)];
                }
            }
            let pos = Pos { b, turn: rng.below(2) as u8, rights: 0, ep: 0 };
            let board = pos.setup();
            let mut g = MoveGenerator::with_cache_capacity(16);
            let other = board.turn().opposite();
            if evaluate::player_is_in_check(&board, &mut g, other) {
                continue;
            }
            let mut bb2 = board.clone();
            let t = bb2.turn();
            let n = g.generate_moves(&mut bb2, t).len();
            if n == 0 || n > 30 {
                continue;
            }
            return pos;
        }
        let wk = rng.below(64);
        let mut bk = rng.below(64);
        while bk == wk || ((bk % 8) as i32 - (wk % 8) as i32).abs() <= 1 && ((bk / 8) as i32 - (wk / 8) as i32).abs() <= 1 {
            bk = rng.below(64);
        }
        b[wk] = 6;
        b[bk] = 12;
        let extra = 1 + rng.below(max_extra);
        // family 1 ("bare"): one side has the lone king, often near an edge, the other a few heavy men:
        // stalemates and mates lie within the search horizon
        let strong = rng.below(2) as u8;
        if family == 1 && rng.chance(2, 3) {
            b[bk] = 0;
            b[wk] = 0;
            let edge = [0usize, 7, 56, 63, 1, 6, 8, 15, 48, 55, 57, 62, 3, 4, 24, 31, 32, 39, 59, 60][rng.below(20)];
            let (lone, other) = if strong == 0 { (12u8, 6u8) } else { (6u8, 12u8) };
            b[edge] = lone;
            loop {
                let s = rng.below(64);
                if s != edge && ((s % 8) as i32 - (edge % 8) as i32).abs().max(((s / 8) as i32 - (edge / 8) as i32).abs()) >= 2 {
                    b[s] = other;
                    break;
                }
            }
        }
        for _ in 0..extra {
            let kind = if family == 1 { [5u8, 4, 1, 1, 5, 2][rng.below(6)] } else { [1u8, 4, 2, 3, 5, 1][rng.below(6)] };
            let col = if family == 1 { strong } else { rng.below(2) as u8 };
            for _ in 0..30 {
                let s = rng.below(64);
                if b[s] != 0 || (kind == 1 && (s < 8 || s >= 56)) {
                    continue;
                }
                b[s] = kind + 6 * col;
                break;
            }
        }
        let pos = Pos { b, turn: rng.below(2) as u8, rights: 0, ep: 0 };
        // cheap pre-filter with the code's own check test; the spec decides consistency for good
        let board = pos.setup();
        let mut g = MoveGenerator::with_cache_capacity(16);
        let other = board.turn().opposite();
        if evaluate::player_is_in_check(&board, &mut g, other) {
            continue;
        }
        let mut bb2 = board.clone();
        let t = bb2.turn();
        let n = g.generate_moves(&mut bb2, t).len();
        if n == 0 || n > 40 {
            continue;
        }
        return pos;
    }
}

/// search-exact <out.ndjson> --seed N --roots R --depth D --max-extra E --sequences S --seq-len L
/// fresh-context searches on random sparse roots, and sequences of searches with one reused context
pub fn exact(args: &[String]) {
    let seed = arg_u64(args, "--seed", 1);
    let roots = arg_u64(args, "--roots", 30);
    let depth = arg_u64(args, "--depth", 3) as u8;
    let max_extra = arg_u64(args, "--max-extra", 4) as usize;
    let sequences = arg_u64(args, "--sequences", 5);
    let seq_len = arg_u64(args, "--seq-len", 4);
    let threads = arg_u64(args, "--threads", 4) as usize;
    if arg_val(args, "--family").as_deref() == Some("bare") {
        FAMILY.with(|f| f.set(1));
    }
    if arg_val(args, "--family").as_deref() == Some("storm") {
        // pawn storms: double steps, live and expired en-passant rights, along games with one reused context
        FAMILY.with(|f| f.set(4));
    }
    if arg_val(args, "--family").as_deref() == Some("kxk") {
        FAMILY.with(|f| f.set(3));
    }
    if arg_val(args, "--family").as_deref() == Some("terminal") {
        // roots exactly `depth` plies before a stalemate / mate of a lone king
        FAMILY.with(|f| f.set(2));
        RETRO.with(|r| r.set(depth));
    }
    let mut rng = Rng::new(seed);
    let mut file = std::io::BufWriter::new(std::fs::File::create(&args[0]).unwrap());
    let mut n = 0;
    if let Some(f) = arg_val(args, "--fen") {
        // replay of one root: several brand-new-context searches of exactly this position
        let pos = crate::trace::parse_fen(&f);
        for _ in 0..roots {
            let (res, _o, _c, score) = search_once(&pos, 0, depth, threads, None);
            writeln!(file, "{}", json!({"root": pos.to_json(), "depth": depth, "context": "new", "res": res, "score": score})).unwrap();
            n += 1;
        }
        file.flush().unwrap();
        println!("{}", json!({"searches": n}));
        return;
    }
    // jobs: fresh-context roots, and sequences (one context reused along a game); run 4 at a time
    let root_list: Vec<Pos> = (0..roots).map(|_| random_sparse(&mut rng, max_extra)).collect();
    let seq_starts: Vec<(Pos, u64)> = (0..sequences).map(|_| (random_sparse(&mut rng, max_extra), rng.next())).collect();
    let lines: Mutex<Vec<String>> = Mutex::new(vec![]);
    let next = Mutex::new(0usize);
    let njobs = root_list.len() + seq_starts.len();
    std::thread::scope(|sc| {
        for _ in 0..4 {
            sc.spawn(|| loop {
                let j = {
                    let mut g = next.lock().unwrap();
                    let j = *g;
                    *g += 1;
                    j
                };
                if j >= njobs {
                    break;
                }
                if j < root_list.len() {
                    let pos = &root_list[j];
                    let (res, _o, _c, score) = search_once(pos, 0, depth, threads, None);
                    lines.lock().unwrap().push(json!({"root": pos.to_json(), "depth": depth, "context": "new", "res": res, "score": score}).to_string());
                    continue;
                }
                // successive searches of a game with ONE context: search, play the move, play a reply, search again
                let s = j - root_list.len();
                let (mut pos, rs) = seq_starts[s].clone();
                let mut rng = Rng::new(rs);
                let mut ctx = Some(SearchContext::new(depth));
                for step in 0..seq_len {
                    let (res, _o, c, score) = search_once(&pos, 0, depth, threads, ctx.take());
                    lines.lock().unwrap().push(json!({"root": pos.to_json(), "depth": depth, "context": format!("reused:{}:{}", s, step), "res": res, "score": score}).to_string());
                    ctx = c;
                    if ctx.is_none() || res["kind"] != "ok" {
                        break;
                    }
                    let mut board = pos.setup();
                    let m = Mv::from_json(&res["m"]).to_chess_move(board.turn());
                    if m.apply(&mut board).is_err() {
                        break;
                    }
                    board.toggle_turn();
                    let mut g = MoveGenerator::with_cache_capacity(16);
                    // odd sequences: the engine plays both sides with the one context (computer v computer);
                    // even sequences: a reply chosen by the harness, the engine always has the same colour
                    if s % 2 == 0 {
                        let t = board.turn();
                        let replies = g.generate_moves(&mut board, t);
                        if replies.is_empty() {
                            break;
                        }
                        // every fourth sequence the opponent blunders: the reply that leaves its most valuable
                        // man capturable (the value of the position then jumps between successive searches)
                        let r = if s % 4 == 2 {
                            let mut best = (0i32, replies[rng.below(replies.len())].clone());
                            for cand in replies.iter() {
                                let mut b2 = board.clone();
                                if cand.apply(&mut b2).is_err() {
                                    continue;
                                }
                                b2.toggle_turn();
                                let t2 = b2.turn();
                                let val = g
                                    .generate_moves(&mut b2, t2)
                                    .iter()
                                    .filter_map(|m| m.captures())
                                    .map(|c| [1, 3, 3, 5, 9, 0][c.0 as usize])
                                    .max()
                                    .unwrap_or(0);
                                if val > best.0 {
                                    best = (val, cand.clone());
                                }
                            }
                            best.1
                        } else {
                            replies[rng.below(replies.len())].clone()
                        };
                        if r.apply(&mut board).is_err() {
                            break;
                        }
                        board.toggle_turn();
                    }
                    pos = Pos::of_board(&board);
                    let t2 = board.turn();
                    if g.generate_moves(&mut board, t2).is_empty() {
                        break;
                    }
                }
            });
        }
    });
    let mut all = lines.into_inner().unwrap();
    all.sort();
    for l in all.iter() {
        writeln!(file, "{}", l).unwrap();
        n += 1;
    }
    file.flush().unwrap();
    println!("{}", json!({"searches": n}));
}

// ------------------------------------------------------------------ controlled scheduler (C09)

thread_local! { static TASK: Cell<usize> = Cell::new(usize::MAX); }

struct St {
    n: usize,
    arrived: usize,
    waiting: Vec<usize>,
    token: Option<usize>,
    finished: usize,
    rng: Rng,
    steps: u64,
    ids: Vec<(u64, u64, u8)>,
    strategy: u8,
    last: usize,
    prio: Vec<u64>,
    change_points: Vec<u64>,
    log: Vec<Value>,
    keep_log: bool,
    last_arrival: std::time::Instant,
}
struct Sched {
    m: Mutex<St>,
    cvs: Vec<Condvar>,
    main: Condvar,
}

impl St {
    fn pick(&mut self) -> Option<usize> {
        if self.token.is_some() || self.waiting.is_empty() || self.arrived < self.n {
            return None;
        }
        // deterministic order of the waiting set: by task identity
        let ids = self.ids.clone();
        self.waiting.sort_by_key(|&t| ids[t]);
        let idx = match self.strategy {
            0 => self.rng.below(self.waiting.len()), // uniform random
            1 => {
                // sticky: few preemptions
                match self.waiting.iter().position(|&t| t == self.last) {
                    Some(p) if !self.rng.chance(1, 8) => p,
                    _ => self.rng.below(self.waiting.len()),
                }
            }
            2 => 0,                       // lowest identity first: sequential-like
            3 => self.waiting.len() - 1,  // highest identity first
            4 => {
                // PCT-like: random priorities, lowered at a few random change points
                if self.change_points.contains(&self.steps) {
                    let t = self.last;
                    if t < self.prio.len() {
                        self.prio[t] = self.steps; // drops below all initial priorities (which are > 1<<32)
                    }
                }
                let prio = self.prio.clone();
                let mut best = 0;
                for (i, &t) in self.waiting.iter().enumerate() {
                    if prio[t] > prio[self.waiting[best]] {
                        best = i;
                    }
                }
                best
            }
            _ => {
                // round-robin with a quantum (preemption-bounded)
                let q = 3 + (self.strategy as u64 % 5);
                match self.waiting.iter().position(|&t| t == self.last) {
                    Some(p) if self.steps % q != 0 => p,
                    _ => {
                        let after = self.waiting.iter().position(|&t| t > self.last).unwrap_or(0);
                        after
                    }
                }
            }
        };
        let t = self.waiting.remove(idx);
        self.token = Some(t);
        self.last = t;
        self.steps += 1;
        Some(t)
    }
}

fn ev_json(task: usize, ev: &Event) -> Value {
    json!({"task": task, "ev": format!("{:?}", ev.kind), "hash": limbs(ev.hash), "fp": limbs(ev.fingerprint), "depth": ev.depth, "max": ev.maximizing,
           "alpha": ev.alpha, "beta": ev.beta, "hit": ev.value.is_some(), "value": ev.value.unwrap_or(0),
           "f": sq_of(common::bitboard::bitboard::Bitboard(ev.from)), "t": sq_of(common::bitboard::bitboard::Bitboard(ev.to)), "p": ev.promo})
}

/// search-seqtrace <out.ndjson> --seed N --sequences S --seq-len L --depth D
/// Games of the pawn-storm family played on with ONE search context, one worker thread (so that the order of
/// the cache accesses is the program order), every cache access logged through hook H2.  Each search is one
/// "schedule" record (as search-sched writes them) carrying `fresh`: whether the context was brand-new.
pub fn seqtrace(args: &[String]) {
    let seed = arg_u64(args, "--seed", 1);
    let sequences = arg_u64(args, "--sequences", 2);
    let seq_len = arg_u64(args, "--seq-len", 6);
    let depth = arg_u64(args, "--depth", 3) as u8;
    let log: Arc<Mutex<(Vec<Value>, usize)>> = Arc::new(Mutex::new((vec![], 0)));
    let l2 = log.clone();
    verif::install(Some(Arc::new(move |ev: &Event| {
        let mut g = l2.lock().unwrap();
        let me = match ev.kind {
            Kind::TaskBegin => {
                let id = g.1;
                g.1 += 1;
                TASK.with(|c| c.set(id));
                id
            }
            _ => TASK.with(|c| c.get()),
        };
        g.0.push(ev_json(me, ev));
    })));
    let mut rng = Rng::new(seed);
    let mut file = std::io::BufWriter::new(std::fs::File::create(&args[0]).unwrap());
    let mut searches = 0u64;
    let mut events = 0u64;
    for s in 0..sequences {
        FAMILY.with(|f| f.set(4));
        let mut pos = random_sparse(&mut rng, 1);
        FAMILY.with(|f| f.set(0));
        let mut ctx = Some(SearchContext::new(depth));
        for step in 0..seq_len {
            {
                let mut g = log.lock().unwrap();
                g.0.clear();
                g.1 = 0;
            }
            let mut b0 = pos.setup();
            let t0 = b0.turn();
            let nroot = MoveGenerator::with_cache_capacity(16).generate_moves(&mut b0, t0).len();
            if nroot == 0 {
                break;
            }
            let (res, _o, c, score) = search_once(&pos, 0, depth, 1, ctx.take());
            let evs = std::mem::take(&mut log.lock().unwrap().0);
            events += evs.len() as u64;
            searches += 1;
            let outcome = if res["kind"] == "ok" { json!({"kind": "ok", "m": res["m"], "score": score}) } else { res.clone() };
            writeln!(file, "{}", json!({"t": "schedule", "pos": pos.to_json(), "depth": depth, "schedule": format!("seq{}:{}", s, step), "strategy": 0, "nroot": nroot,
                "fresh": step == 0, "outcome": outcome, "events": evs})).unwrap();
            ctx = c;
            if ctx.is_none() || res["kind"] != "ok" {
                break;
            }
            // play the engine's move and a random reply (pawn double steps preferred: en-passant rights come and go)
            let mut board = pos.setup();
            let m = Mv::from_json(&res["m"]).to_chess_move(board.turn());
            if m.apply(&mut board).is_err() {
                break;
            }
            board.toggle_turn();
            let mut g = MoveGenerator::with_cache_capacity(16);
            let t = board.turn();
            let replies = g.generate_moves(&mut board, t);
            if replies.is_empty() {
                break;
            }
            let doubles: Vec<&chess::chess_move::chess_move::ChessMove> = replies
                .iter()
                .filter(|m| {
                    let x = Mv::of(m);
                    (x.t as i32 - x.f as i32).abs() == 16 && (board.get(m.from_square()).map(|(p, _)| kind_of(p) == 1).unwrap_or(false))
                })
                .collect();
            let r = if !doubles.is_empty() && rng.chance(1, 2) { doubles[rng.below(doubles.len())].clone() } else { replies[rng.below(replies.len())].clone() };
            if r.apply(&mut board).is_err() {
                break;
            }
            board.toggle_turn();
            pos = Pos::of_board(&board);
        }
    }
    verif::install(None);
    file.flush().unwrap();
    println!("{}", json!({"searches": searches, "events": events}));
}

/// search-sched <out.ndjson> --seed N --positions P --schedules S --depth D --max-extra E [--log-one-in K]
pub fn sched(args: &[String]) {
    let seed = arg_u64(args, "--seed", 1);
    let npos = arg_u64(args, "--positions", 10);
    let nsched = arg_u64(args, "--schedules", 8);
    let depth = arg_u64(args, "--depth", 3) as u8;
    let max_extra = arg_u64(args, "--max-extra", 4) as usize;
    let log_every = arg_u64(args, "--log-schedules", 2);
    let native = arg_val(args, "--native-pools").unwrap_or("1,2,4,16".into());
    let native_pools: Vec<usize> = native.split(',').filter(|s| !s.is_empty()).map(|s| s.parse().unwrap()).collect();
    let pool = Arc::new(rayon::ThreadPoolBuilder::new().num_threads(64).stack_size(8 << 20).build().unwrap());
    let sched = Arc::new(Sched {
        m: Mutex::new(St { n: 0, arrived: 0, waiting: vec![], token: None, finished: 0, rng: Rng::new(1), steps: 0, ids: vec![], strategy: 0, last: 0,
                           prio: vec![], change_points: vec![], log: vec![], keep_log: false, last_arrival: std::time::Instant::now() }),
        cvs: (0..80).map(|_| Condvar::new()).collect(),
        main: Condvar::new(),
    });
    let s2 = sched.clone();
    verif::install(Some(Arc::new(move |ev: &Event| {
        let mut g = s2.m.lock().unwrap();
        if g.n == 0 {
            return; // scheduler disabled (native mode)
        }
        let me = match ev.kind {
            Kind::TaskBegin => {
                let id = g.ids.len();
                g.ids.push((ev.from, ev.to, ev.promo));
                let p = (1u64 << 40) + g.rng.next() % (1u64 << 20);
                g.prio.push(p);
                TASK.with(|c| c.set(id));
                g.arrived += 1;
                g.last_arrival = std::time::Instant::now();
                id
            }
            _ => TASK.with(|c| c.get()),
        };
        // ProbeResult and TaskEnd happen while the task holds the token: logged at once.  Yield points
        // (TaskBegin, Probe, Store) are logged when the token is GRANTED, i.e. in linearisation order.
        if g.keep_log && matches!(ev.kind, Kind::ProbeResult | Kind::TaskEnd) {
            let j = ev_json(me, ev);
            g.log.push(j);
        }
        match ev.kind {
            Kind::ProbeResult => return, // not a yield point: still inside the same atomic step as the read
            Kind::TaskEnd => {
                g.finished += 1;
                if g.token == Some(me) {
                    g.token = None;
                }
                if let Some(t) = g.pick() {
                    s2.cvs[t].notify_one();
                }
                return;
            }
            _ => {}
        }
        // yield: give the token up and wait to be picked
        if g.token == Some(me) {
            g.token = None;
        }
        g.waiting.push(me);
        if let Some(t) = g.pick() {
            if t != me {
                s2.cvs[t].notify_one();
            }
        }
        while g.token != Some(me) {
            let (g2, _to) = s2.cvs[me].wait_timeout(g, Duration::from_millis(300)).unwrap();
            g = g2;
            // the scheduler expects one task per root move; if the code under test splits the root work
            // differently (fewer tasks than root moves), do not wait for arrivals that never come
            if g.token.is_none() && g.arrived < g.n && g.arrived > 0 && g.last_arrival.elapsed() > Duration::from_millis(1500) {
                g.n = g.arrived;
                if let Some(t) = g.pick() {
                    if t != me {
                        s2.cvs[t].notify_one();
                    }
                }
            }
        }
        if g.keep_log {
            let j = ev_json(me, ev);
            g.log.push(j);
        }
    })));

    let mut rng = Rng::new(seed);
    let mut file = std::io::BufWriter::new(std::fs::File::create(&args[0]).unwrap());
    let mut total_steps = 0u64;
    let mut searches = 0u64;
    let fixed = arg_val(args, "--fen").map(|f| crate::trace::parse_fen(&f));
    for pi in 0..npos {
        // every second position is a pawn storm (en-passant rights in the tree)
        FAMILY.with(|f| f.set(if pi % 2 == 1 { 4 } else { 0 }));
        let pos = match &fixed {
            Some(p) => p.clone(),
            None => random_sparse(&mut rng, max_extra),
        };
        FAMILY.with(|f| f.set(0));
        // every other pawn storm starts a few plies before the move-count draw: the clocks of the tasks'
        // private boards must stay in step, or one cache key gets two values
        let root_hm: u64 = if pi % 4 == 3 {
            93 + rng.below(5) as u64
        } else if pi % 4 == 2 {
            95 + rng.below(4) as u64 // ordinary sparse roots with the draw by move count inside the horizon
        } else {
            0
        };
        let mut b0 = pos.setup();
        let t0 = b0.turn();
        let nroot = MoveGenerator::with_cache_capacity(16).generate_moves(&mut b0, t0).len();
        if nroot == 0 || nroot > 60 {
            continue;
        }
        let mut outcomes: Vec<Value> = vec![];
        for s in 0..nsched {
            let keep = s % log_every.max(1) == 0;
            marker(&json!({"fen": pos.fen(), "depth": depth, "schedule": s}));
            {
                let mut g = sched.m.lock().unwrap();
                g.n = nroot;
                g.arrived = 0;
                g.waiting.clear();
                g.token = None;
                g.finished = 0;
                g.rng = Rng::new(seed ^ (pi * 1000 + s + 1));
                g.ids.clear();
                g.prio.clear();
                g.strategy = (s % 9) as u8;
                g.steps = 0;
                g.last = 0;
                g.log.clear();
                g.keep_log = keep;
                let d = 1 + (s % 3);
                let mut cps = vec![];
                for _ in 0..d {
                    cps.push(g.rng.next() % 3000);
                }
                g.change_points = cps;
            }
            // run in a helper thread: a schedule under which the tasks block each other for good must be
            // observed (and reported), not hang the harness
            let (tx, rx) = mpsc::channel();
            let pool2 = pool.clone();
            let p2 = pos.clone();
            std::thread::spawn(move || {
                let mut board = p2.setup_clocks(root_hm, 1);
                let r = guarded(|| {
                    pool2.install(|| {
                        let mut ctx = SearchContext::new(depth);
                        let mut gen = MoveGenerator::new();
                        let m = alpha_beta_search(&mut ctx, &mut board, &mut gen);
                        (m.map(|m| Mv::of(&m)).map_err(|e| format!("{}", e)), ctx.last_score())
                    })
                });
                let _ = tx.send(r);
            });
            let r = match rx.recv_timeout(Duration::from_secs(240)) {
                Ok(r) => r,
                Err(_) => {
                    // no answer: deadlock / livelock under this schedule
                    let steps = sched.m.lock().map(|g| g.steps).unwrap_or(0);
                    outcomes.push(json!({"schedule": s, "strategy": s % 9, "steps": steps, "outcome": {"kind": "timeout"}}));
                    writeln!(file, "{}", json!({"t": "outcomes", "pos": pos.to_json(), "depth": depth, "nroot": nroot, "outcomes": outcomes})).unwrap();
                    file.flush().unwrap();
                    println!("{}", json!({"searches": searches + 1, "scheduling_steps": total_steps, "hung": true}));
                    std::process::exit(0);
                }
            };
            let (steps, log) = {
                let mut g = sched.m.lock().unwrap();
                let st = g.steps;
                g.n = 0;
                (st, std::mem::take(&mut g.log))
            };
            total_steps += steps;
            searches += 1;
            let outcome = match &r {
                Ok((Ok(m), sc)) => json!({"kind": "ok", "m": m.to_json(), "score": sc}),
                Ok((Err(e), _)) => json!({"kind": "err", "err": e}),
                Err(p) => json!({"kind": "panic", "msg": p}),
            };
            outcomes.push(json!({"schedule": s, "strategy": s % 9, "steps": steps, "outcome": outcome}));
            if keep {
                writeln!(file, "{}", json!({"t": "schedule", "pos": pos.to_json(), "hm": root_hm, "depth": depth, "schedule": s, "strategy": s % 9, "nroot": nroot,
                    "outcome": outcome, "events": log})).unwrap();
            }
        }
        // native mode: real pools of different sizes, scheduler off
        for &t in &native_pools {
            let (res, _o, _c, score) = search_once(&pos, root_hm, depth, t, None);
            let outcome = if res["kind"] == "ok" { json!({"kind": "ok", "m": res["m"], "score": score}) } else { res.clone() };
            outcomes.push(json!({"schedule": format!("native{}", t), "outcome": outcome}));
            searches += 1;
        }
        writeln!(file, "{}", json!({"t": "outcomes", "pos": pos.to_json(), "depth": depth, "nroot": nroot, "outcomes": outcomes})).unwrap();
    }
    verif::install(None);
    file.flush().unwrap();
    println!("{}", json!({"searches": searches, "scheduling_steps": total_steps}));
    let _ = Board::new();
}

/// search-native <fens.json> <out.ndjson> --pools 1,4,16,48 --reps R --watchdog-secs W
/// real thread pools (no scheduler) on richer positions; every run must give the 1-thread answer
pub fn native(args: &[String]) {
    let cases: Value = serde_json::from_str(&std::fs::read_to_string(&args[0]).unwrap()).unwrap();
    let pools: Vec<usize> = arg_val(args, "--pools").unwrap_or("1,4,16,48".into()).split(',').map(|s| s.parse().unwrap()).collect();
    let reps = arg_u64(args, "--reps", 2);
    WATCHDOG_SECS.store(arg_u64(args, "--watchdog-secs", 90), std::sync::atomic::Ordering::Relaxed);
    let mut file = std::io::BufWriter::new(std::fs::File::create(&args[1]).unwrap());
    let mut searches = 0u64;
    let mut hung = false;
    'outer: for c in cases.as_array().unwrap() {
        let pos = crate::trace::parse_fen(c["fen"].as_str().unwrap());
        let depth = c["depth"].as_u64().unwrap() as u8;
        let hm = c["hm"].as_u64().unwrap_or(0);
        let mut outcomes = vec![];
        for &t in &pools {
            for r in 0..(if t == 1 { 1 } else { reps }) {
                marker(&json!({"fen": pos.fen(), "depth": depth, "threads": t}));
                let (res, _o, _c, score) = search_once(&pos, hm, depth, t, None);
                searches += 1;
                let outcome = if res["kind"] == "ok" { json!({"kind": "ok", "m": res["m"], "score": score}) } else { res.clone() };
                outcomes.push(json!({"schedule": format!("native{}#{}", t, r), "outcome": outcome}));
                if res["kind"] == "timeout" {
                    hung = true;
                    writeln!(file, "{}", json!({"t": "outcomes", "pos": pos.to_json(), "depth": depth, "nroot": 0, "outcomes": outcomes})).unwrap();
                    break 'outer;
                }
            }
        }
        writeln!(file, "{}", json!({"t": "outcomes", "pos": pos.to_json(), "depth": depth, "nroot": 0, "outcomes": outcomes})).unwrap();
    }
    file.flush().unwrap();
    println!("{}", json!({"searches": searches, "scheduling_steps": 0, "hung": hung}));
    if hung {
        std::process::exit(0);
    }
}
