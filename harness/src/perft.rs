//! C10: position counting through every entry point, for comparison with the path counts of the
//! TLC state graph.
use crate::util::*;
use chess::board::color::Color;
use chess::game::position_counter::{run_count_positions, CountPositionsStrategy};
use chess::move_generator::{verif_count_positions_inner, MoveGenerator};
use serde_json::{json, Value};

/// perft <cases.json>: [{"name", "pos", "depths":[..]}]; prints counts per entry point
pub fn main(args: &[String]) {
    let cases: Value = serde_json::from_str(&std::fs::read_to_string(&args[0]).unwrap()).unwrap();
    let pools: Vec<usize> = arg_val(args, "--pools").unwrap_or("1,2,4,8,16".into()).split(',').map(|s| s.parse().unwrap()).collect();
    let mut out = vec![];
    // one long-lived generator that has served all earlier counts ("used")
    let mut used = MoveGenerator::new();
    for c in cases.as_array().unwrap() {
        let pos = Pos::from_json(&c["pos"]);
        let side = color_of(pos.turn as i64);
        for d in c["depths"].as_array().unwrap() {
            let depth = d.as_u64().unwrap() as u8;
            let mut results = serde_json::Map::new();
            let fresh = guarded(|| {
                let mut b = pos.setup();
                let mut g = MoveGenerator::new();
                let n = g.count_positions(depth, &mut b, side);
                (n, Pos::of_board(&b) == pos)
            });
            results.insert("fresh".into(), match fresh { Ok((n, same)) => json!({"n": n, "board_unchanged": same}), Err(p) => json!({"panic": p}) });
            // the counter takes the colour explicitly (moves are applied without flipping the board's own
            // turn field, so inner nodes routinely have turn != colour): the turn field must not matter
            let mism = guarded(|| {
                let mut b = pos.setup();
                b.set_turn(side.opposite());
                let mut g = MoveGenerator::new();
                g.count_positions(depth, &mut b, side)
            });
            results.insert("turn_field_flipped".into(), match mism { Ok(n) => json!({"n": n}), Err(p) => json!({"panic": p}) });
            let u = guarded(|| {
                let mut b = pos.setup();
                used.count_positions(depth, &mut b, side)
            });
            results.insert("used".into(), match u { Ok(n) => json!({"n": n}), Err(p) => json!({"panic": p}) });
            // a generator that has served every other kind of question about this position first
            // (check tests and attack maps for both colours, move lists for both colours)
            let busy = guarded(|| {
                let mut b = pos.setup();
                let mut g = MoveGenerator::new();
                for c in [side.opposite(), side] {
                    chess::evaluate::player_is_in_check(&b, &mut g, c);
                    g.get_attack_targets(&b, c);
                }
                g.generate_moves(&mut b, side.opposite());
                g.generate_moves_and_lazily_update_chess_move_effects(&mut b, side);
                g.count_positions(depth, &mut b, side)
            });
            results.insert("used_for_other_queries".into(), match busy { Ok(n) => json!({"n": n}), Err(p) => json!({"panic": p}) });
            let inner = guarded(|| {
                let mut b = pos.setup();
                let mut g = MoveGenerator::new();
                verif_count_positions_inner(depth, &mut b, side, &mut g)
            });
            results.insert("inner".into(), match inner { Ok(n) => json!({"n": n}), Err(p) => json!({"panic": p}) });
            let inner_used = guarded(|| {
                let mut b = pos.setup();
                verif_count_positions_inner(depth, &mut b, side, &mut used)
            });
            results.insert("inner_used".into(), match inner_used { Ok(n) => json!({"n": n}), Err(p) => json!({"panic": p}) });
            for &t in &pools {
                let pool = rayon::ThreadPoolBuilder::new().num_threads(t).build().unwrap();
                let r = guarded(|| {
                    pool.install(|| {
                        let mut b = pos.setup();
                        let mut g = MoveGenerator::new();
                        g.count_positions(depth, &mut b, side)
                    })
                });
                results.insert(format!("pool{}", t), match r { Ok(n) => json!({"n": n}), Err(p) => json!({"panic": p}) });
            }
            out.push(json!({"name": c["name"], "depth": depth, "results": results}));
        }
    }
    println!("{}", json!({"cases": out}));
    let _ = Color::White;
}

/// cli-count --depth D : the command-line driver's own output (start position, depths 1..D)
pub fn cli(args: &[String]) {
    let depth = arg_u64(args, "--depth", 3) as u8;
    run_count_positions(depth, CountPositionsStrategy::All);
}
