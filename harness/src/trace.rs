//! B2 (histories): drive the real Board through seeded histories and log one event per public
//! call, at the call's return, with the full observable projection.  Validated by Trace_Engine.
use crate::util::*;
use chess::alpha_beta_searcher::{alpha_beta_search, SearchContext};
use chess::board::color::Color;
use chess::board::piece::Piece;
use chess::board::Board;
use chess::chess_move::algebraic_notation::enumerate_candidate_moves_with_algebraic_notation;
use chess::chess_move::chess_move::ChessMove;
use chess::evaluate::{self, GameEnding};
use chess::move_generator::MoveGenerator;
use common::bitboard::bitboard::Bitboard;
use serde_json::{json, Value};
use std::io::Write;

pub fn tables_record() -> Value {
    let base = Board::new().current_position_hash();
    let mut pc = Vec::new();
    for code in 1..=12u8 {
        let (p, c) = piece_of_code(code);
        let mut row = Vec::new();
        for i in 0..64 {
            let mut b = Board::new();
            b.put(Bitboard(1u64 << i), p, c).unwrap();
            row.push(limbs(b.current_position_hash() ^ base));
        }
        pc.push(Value::Array(row));
    }
    let mut cr = Vec::new();
    for r in 0..16u8 {
        let mut b = Board::new();
        b.lose_castle_rights(15 & !r);
        cr.push(limbs(b.current_position_hash() ^ base));
    }
    let mut ep = Vec::new();
    for i in 0..64 {
        let mut b = Board::new();
        b.push_en_passant_target(Bitboard(1u64 << i));
        ep.push(limbs(b.current_position_hash() ^ base));
    }
    json!({"ev": "Tables", "base": limbs(base), "pc": pc, "cr": cr, "ep": ep})
}

fn ending_str(e: &Option<GameEnding>) -> &'static str {
    match e {
        None => "none",
        Some(GameEnding::Checkmate) => "checkmate",
        Some(GameEnding::Stalemate) => "stalemate",
        Some(GameEnding::Draw) => "draw",
    }
}

pub struct Tracer<'a> {
    pub out: &'a mut dyn Write,
    pub with_sum: bool,
    pub events: u64,
}

impl<'a> Tracer<'a> {
    pub fn emit(&mut self, mut v: Value, board: &Board) {
        v["obs"] = obs(board);
        if self.with_sum {
            v["sum"] = summaries(board);
        }
        writeln!(self.out, "{}", v).unwrap();
        self.events += 1;
    }
    pub fn reset(&mut self, board: &Board) {
        self.emit(json!({"ev": "Reset"}), board);
    }
    /// returns false if the call failed or panicked (the history must then be abandoned)
    pub fn apply(&mut self, board: &mut Board, m: &ChessMove) -> bool {
        let r = guarded(|| m.apply(board));
        let res = match &r {
            Ok(Ok(())) => "ok".to_string(),
            Ok(Err(e)) => format!("err: {:?}", e),
            Err(p) => format!("panic: {}", p),
        };
        let ok = res == "ok";
        self.emit(json!({"ev": "Apply", "m": Mv::of(m).to_json(), "res": res}), board);
        ok
    }
    pub fn undo(&mut self, board: &mut Board, m: &ChessMove) -> bool {
        let r = guarded(|| m.undo(board));
        let res = match &r {
            Ok(Ok(())) => "ok".to_string(),
            Ok(Err(e)) => format!("err: {:?}", e),
            Err(p) => format!("panic: {}", p),
        };
        let ok = res == "ok";
        self.emit(json!({"ev": "Undo", "m": Mv::of(m).to_json(), "res": res}), board);
        ok
    }
    /// a copy of the board must be the board: same observables now, and the same after taking the last
    /// move back on the copy (the copy carries the whole history, not only the current values)
    pub fn clone_check(&mut self, board: &Board, last: Option<&(ChessMove, bool)>) -> bool {
        let c = match guarded(|| board.clone()) {
            Ok(c) => c,
            Err(_) => return false,
        };
        self.emit(json!({"ev": "Clone"}), &c);
        if let Some((m, reg)) = last {
            let mut c2 = c;
            let r = guarded(|| {
                if *reg {
                    c2.uncount_current_position();
                }
                c2.toggle_turn();
                m.undo(&mut c2).is_ok()
            });
            if let Ok(true) = r {
                self.emit(json!({"ev": "CloneUndo", "m": Mv::of(m).to_json(), "reg": *reg}), &c2);
            } else {
                self.emit(json!({"ev": "CloneUndo", "m": Mv::of(m).to_json(), "reg": *reg, "failed": true}), board);
            }
        }
        true
    }
    /// the moves a freshly created generator returns on the board this history has led to (C01 along
    /// histories with undos: judged by the model's own state, see Trace_Engine TMoves)
    pub fn moves(&mut self, board: &mut Board) -> bool {
        let side = board.turn();
        let r = guarded(|| {
            let mut gen = MoveGenerator::with_cache_capacity(1 << 12);
            gen.generate_moves(board, side).iter().map(|m| Mv::of(m).to_json()).collect::<Vec<_>>()
        });
        match r {
            Ok(mv) => {
                self.emit(json!({"ev": "Moves", "mv": mv, "panic": ""}), board);
                true
            }
            Err(p) => {
                self.emit(json!({"ev": "Moves", "mv": [], "panic": p}), board);
                false
            }
        }
    }
    /// a search with the long-lived generator of this history (depth 1 and 2, fresh context): the answer is
    /// judged by TSearch (legal move of the position the history leads to, board untouched)
    pub fn search(&mut self, board: &mut Board, gen: &mut MoveGenerator, depth: u8) -> bool {
        let r = guarded(|| {
            let mut ctx = SearchContext::new(depth);
            alpha_beta_search(&mut ctx, board, gen)
        });
        let res = match r {
            Ok(Ok(m)) => json!({"kind": "ok", "m": Mv::of(&m).to_json()}),
            Ok(Err(e)) => json!({"kind": format!("{:?}", e).split(|c: char| !c.is_alphanumeric()).next().unwrap_or("err").to_string(), "m": {"k": "-", "f": 0, "t": 0, "p": 0, "c": 0}}),
            Err(p) => json!({"kind": "panic", "msg": p, "m": {"k": "-", "f": 0, "t": 0, "p": 0, "c": 0}}),
        };
        let ok = res["kind"] != "panic";
        self.emit(json!({"ev": "Search", "depth": depth, "threads": 0, "res": res}), board);
        ok
    }
    pub fn toggle(&mut self, board: &mut Board) {
        board.toggle_turn();
        self.emit(json!({"ev": "Toggle"}), board);
    }
    pub fn count(&mut self, board: &mut Board) -> bool {
        match guarded(|| board.count_current_position()) {
            Ok(n) => {
                self.emit(json!({"ev": "Count", "res": n as u64, "panic": ""}), board);
                true
            }
            Err(p) => {
                self.emit(json!({"ev": "Count", "res": 0, "panic": p}), board);
                false
            }
        }
    }
    pub fn uncount(&mut self, board: &mut Board) -> bool {
        match guarded(|| board.uncount_current_position()) {
            Ok(n) => {
                self.emit(json!({"ev": "Uncount", "res": n as u64, "panic": ""}), board);
                true
            }
            Err(p) => {
                self.emit(json!({"ev": "Uncount", "res": 0, "panic": p}), board);
                false
            }
        }
    }
    pub fn ending(&mut self, board: &mut Board, gen: &mut MoveGenerator) -> bool {
        let side = board.turn();
        match guarded(|| evaluate::game_ending(board, gen, side)) {
            Ok(e) => {
                self.emit(json!({"ev": "Ending", "res": ending_str(&e), "panic": ""}), board);
                true
            }
            Err(p) => {
                self.emit(json!({"ev": "Ending", "res": "panic", "panic": p}), board);
                false
            }
        }
    }
    /// a query that must leave the caller's board untouched
    pub fn query(&mut self, board: &mut Board, gen: &mut MoveGenerator, which: usize) -> bool {
        let side = board.turn();
        let name;
        let r = match which % 6 {
            0 => {
                name = "generate_moves";
                guarded(|| {
                    gen.generate_moves(board, side);
                })
            }
            1 => {
                name = "generate_moves_and_lazily_update_chess_move_effects";
                guarded(|| {
                    gen.generate_moves_and_lazily_update_chess_move_effects(board, side);
                })
            }
            2 => {
                name = "enumerate_candidate_moves_with_algebraic_notation";
                guarded(|| {
                    enumerate_candidate_moves_with_algebraic_notation(board, side, gen);
                })
            }
            3 => {
                name = "player_is_in_check+get_attack_targets";
                guarded(|| {
                    evaluate::player_is_in_check(board, gen, side);
                    gen.get_attack_targets(board, side.opposite());
                })
            }
            4 => {
                name = "alpha_beta_search(depth 2)";
                guarded(|| {
                    let mut ctx = SearchContext::new(2);
                    let _ = alpha_beta_search(&mut ctx, board, gen);
                })
            }
            _ => {
                name = "count_positions(1)";
                guarded(|| {
                    gen.count_positions(1, board, side);
                })
            }
        };
        match r {
            Ok(()) => {
                self.emit(json!({"ev": "Query", "name": name}), board);
                true
            }
            Err(_) => {
                // a panic inside a query is C07's / C01's business; the board may be corrupted: abandon
                false
            }
        }
    }
}

fn is_reversible(board: &Board, m: &ChessMove) -> bool {
    let x = Mv::of(m);
    if x.k != 'S' || x.c != 0 {
        return false;
    }
    !matches!(board.get(m.from_square()), Some((Piece::Pawn, _)))
}

fn find_uci(board: &mut Board, gen: &mut MoveGenerator, uci: &str) -> Option<ChessMove> {
    let side = board.turn();
    gen.generate_moves(board, side).iter().find(|m| m.to_uci() == uci).cloned()
}

struct History {
    board: Board,
    stack: Vec<(ChessMove, bool)>, // (move, position after it was registered)
}

/// random walk with undo bursts and queries
fn walk(tr: &mut Tracer, rng: &mut Rng, gen: &mut MoveGenerator, start: Board, plies: usize, style: &str, keep_home: bool) {
    let mut h = History { board: start, stack: vec![] };
    tr.reset(&h.board);
    let register = style == "repetition";
    let mut last_own: [Option<ChessMove>; 2] = [None, None];
    // in half of the long games kings and rooks stay at home for the first 66-95 plies, so that castling
    // rights are still held -- and then lost -- deep into the history (stacks longer than any fixed window)
    let protect = if plies >= 1000 && keep_home {
        plies * 6 / 10 // marathon games: rights are still held (and then lost) beyond ply 600
    } else if style != "walk" && (keep_home || rng.chance(1, 2)) {
        66 + rng.below(30)
    } else {
        0
    };
    for step in 0..plies {
        // undo burst
        if !h.stack.is_empty() && rng.chance(1, if style == "walk" { 9 } else if style == "clock" { 80 } else { 25 }) {
            // (long clock games must actually get long: short bursts only)
            let n = if style != "clock" && rng.chance(1, 6) { h.stack.len() } else { 1 + rng.below(h.stack.len().min(14)) };
            for _ in 0..n {
                let (m, reg) = h.stack.pop().unwrap();
                if reg && !tr.uncount(&mut h.board) {
                    return;
                }
                tr.toggle(&mut h.board);
                if !tr.undo(&mut h.board, &m) {
                    return;
                }
            }
            last_own = [None, None];
        }
        if rng.chance(1, 8) && !tr.clone_check(&h.board, h.stack.last()) {
            return;
        }
        if rng.chance(1, 7) && !tr.moves(&mut h.board) {
            return;
        }
        if style == "walk" && rng.chance(1, 5) {
            let w = rng.below(6);
            // searches are slow on full boards: keep them for sparse positions
            let w = if w == 4 && h.board.occupied().count_ones() > 10 { 1 } else { w };
            if !tr.query(&mut h.board, gen, w) {
                return;
            }
        }
        if style != "walk" && (style == "clock" || rng.chance(1, 3)) {
            if !tr.ending(&mut h.board, gen) {
                return;
            }
        }
        let side = h.board.turn();
        let moves = match guarded(|| gen.generate_moves(&mut h.board, side)) {
            Ok(m) => m,
            Err(_) => return,
        };
        if moves.is_empty() {
            return;
        }
        let m = match style {
            "clock" | "repetition" => {
                let mut rev: Vec<&ChessMove> = moves.iter().filter(|m| is_reversible(&h.board, m)).collect();
                if h.stack.len() < protect {
                    let calm: Vec<&ChessMove> = rev
                        .iter()
                        .filter(|m| !matches!(h.board.get(m.from_square()), Some((chess::board::piece::Piece::King, _)) | Some((chess::board::piece::Piece::Rook, _))))
                        .cloned()
                        .collect();
                    if !calm.is_empty() {
                        rev = calm;
                    }
                }
                let si = if side == Color::White { 1 } else { 0 };
                // going back where we came from makes recurrences likely
                let back = last_own[si].as_ref().and_then(|p| {
                    moves.iter().find(|m| m.from_square() == p.to_square() && m.to_square() == p.from_square() && is_reversible(&h.board, m))
                });
                // (repetition games: now and then an irreversible move, usually taken back at once -- a look-ahead)
                let pawnish = (style == "clock" && rng.chance(1, 40 + (step as u64 % 3) * 60)) || (style == "repetition" && rng.chance(1, 14));
                if let (Some(b), true) = (back, style == "repetition" && rng.chance(3, 5)) {
                    b.clone()
                } else if !rev.is_empty() && !pawnish {
                    rev[rng.below(rev.len())].clone()
                } else {
                    moves[rng.below(moves.len())].clone()
                }
            }
            _ => {
                let special: Vec<&ChessMove> = moves.iter().filter(|m| { let x = Mv::of(m); x.k != 'S' || x.c != 0 }).collect();
                if !special.is_empty() && rng.chance(1, 3) {
                    special[rng.below(special.len())].clone()
                } else {
                    moves[rng.below(moves.len())].clone()
                }
            }
        };
        if !tr.apply(&mut h.board, &m) {
            return;
        }
        tr.toggle(&mut h.board);
        let reg = register && rng.chance(9, 10);
        if reg && !tr.count(&mut h.board) {
            return;
        }
        last_own[if side == Color::White { 1 } else { 0 }] = Some(m.clone());
        let irreversible = register && h.board.halfmove_clock() == 0;
        h.stack.push((m, reg));
        if irreversible && rng.chance(2, 3) {
            let (m, reg) = h.stack.pop().unwrap();
            if reg && !tr.uncount(&mut h.board) {
                return;
            }
            tr.toggle(&mut h.board);
            if !tr.undo(&mut h.board, &m) {
                return;
            }
            last_own = [None, None];
            continue;
        }
        if register && h.board.max_seen_position_count() as u64 >= 3 {
            // the game would be over here; look at the verdict, then (usually) take it back and go on;
            // now and then play on past the third occurrence so that counts of 4 and 5 and their
            // unregistration are seen too
            if !tr.ending(&mut h.board, gen) {
                return;
            }
            if rng.chance(2, 5) {
                continue;
            }
            let (m, reg) = h.stack.pop().unwrap();
            if reg && !tr.uncount(&mut h.board) {
                return;
            }
            tr.toggle(&mut h.board);
            if !tr.undo(&mut h.board, &m) {
                return;
            }
        }
    }
    // take everything back: the root must be restored exactly
    while let Some((m, reg)) = h.stack.pop() {
        if reg && !tr.uncount(&mut h.board) {
            return;
        }
        tr.toggle(&mut h.board);
        if !tr.undo(&mut h.board, &m) {
            return;
        }
    }
}

/// scripted history (UCI strings), registering every position; `Ending` asked after each ply
fn scripted(tr: &mut Tracer, gen: &mut MoveGenerator, start: Board, moves: &[&str]) {
    let mut board = start;
    tr.reset(&board);
    if !tr.count(&mut board) {
        return;
    }
    let mut played: Vec<ChessMove> = vec![];
    for u in moves {
        let m = match find_uci(&mut board, gen, u) {
            Some(m) => m,
            None => return,
        };
        if !tr.apply(&mut board, &m) {
            return;
        }
        tr.toggle(&mut board);
        if !tr.count(&mut board) {
            return;
        }
        if !tr.ending(&mut board, gen) {
            return;
        }
        if !tr.moves(&mut board) {
            return;
        }
        // the long-lived generator has seen the whole history: the search must still answer for THIS position
        if board.occupied().count_ones() <= 12 && (!tr.search(&mut board, gen, 1) || !tr.search(&mut board, gen, 2)) {
            return;
        }
        played.push(m);
    }
    // take everything back, unregistering each position first: the exact inverse, occurrence counts included
    while let Some(m) = played.pop() {
        if !tr.uncount(&mut board) {
            return;
        }
        tr.toggle(&mut board);
        if !tr.undo(&mut board, &m) {
            return;
        }
    }
}

/// one deterministic marathon game on ONE board: 600 plies of knight shuffles with every castling right held,
/// then 1.e4 e5 2.Ke2 Ke7 (double steps, rights lost), a queen-side rook excursion, and 600 more plies of
/// shuffles; afterwards everything is taken back.  Histories far longer than any fixed window.
fn marathon(tr: &mut Tracer, gen: &mut MoveGenerator) {
    let mut board = Board::starting_position();
    tr.reset(&board);
    let mut line: Vec<&str> = vec![];
    for _ in 0..150 {
        line.extend(["g1f3", "g8f6", "f3g1", "f6g8"]);
    }
    line.extend(["e2e4", "e7e5", "e1e2", "e8e7", "a2a4", "a7a5", "a1a3", "a8a6"]);
    for _ in 0..150 {
        line.extend(["g1f3", "g8f6", "f3g1", "f6g8"]);
    }
    let mut stack: Vec<ChessMove> = vec![];
    for (i, u) in line.iter().enumerate() {
        let m = match find_uci(&mut board, gen, u) {
            Some(m) => m,
            None => return,
        };
        if !tr.apply(&mut board, &m) {
            return;
        }
        tr.toggle(&mut board);
        stack.push(m);
        if i % 97 == 0 {
            let last = stack.last().map(|m| (m.clone(), false));
            if !tr.clone_check(&board, last.as_ref()) || !tr.moves(&mut board) {
                return;
            }
        }
    }
    while let Some(m) = stack.pop() {
        tr.toggle(&mut board);
        if !tr.undo(&mut board, &m) {
            return;
        }
    }
}

pub const SCRIPTS: [(&str, &str, &str); 16] = [
    ("rook-takes-rook-then-recurrence", "r3k2r/8/8/8/8/8/8/R3K2R b KQkq -", "h8g8 a1a8 e8e7 a8a7 e7e8 a7a8 e8e7 a8a7 e7e8 a7a8"),
    ("rook-takes-rook-then-recurrence-black", "r3k2r/8/8/8/8/8/8/R3K2R w KQkq -", "h1g1 a8a1 e1e2 a1a2 e2e1 a2a1 e1e2 a1a2 e2e1 a2a1"),
    ("knight-shuffle-threefold", "rnbqkbnr/pppppppp/8/8/8/8/PPPPPPPP/RNBQKBNR w KQkq -", "g1f3 g8f6 f3g1 f6g8 g1f3 g8f6 f3g1 f6g8"),
    ("triangulation-other-side", "4k3/8/8/8/8/8/8/4K3 w - -", "e1d1 e8d8 d1d2 d8e8 d2e1 e8d8 e1d1 d8e8 d1d2 e8d8 d2e1"),
    ("rook-excursion-loses-right", "4k3/8/8/8/8/8/8/4K2R w K -", "h1g1 e8d8 g1h1 d8e8 h1g1 e8d8 g1h1 d8e8"),
    ("ep-opportunity-then-same-placement", "4k3/8/8/8/1p6/8/P7/4K3 w - -", "a2a4 e8d8 e1d1 d8e8 d1e1 e8d8 e1d1 d8e8 d1e1"),
    ("black-shuffle-threefold", "4k2r/8/8/8/8/8/8/4K3 b k -", "h8g8 e1d1 g8h8 d1e1 h8g8 e1d1 g8h8 d1e1 h8g8"),
    ("queen-triangulation", "4k3/8/8/8/8/8/8/3QK3 w - -", "d1d2 e8f8 d2d3 f8e8 d3d1 e8f8 d1d2 f8e8 d2d3 e8f8 d3d1 f8e8"),
    ("both-rights-lost-by-king-walk", "r3k2r/8/8/8/8/8/8/R3K2R w KQkq -", "e1e2 e8e7 e2e1 e7e8 e1e2 e8e7 e2e1 e7e8"),
    ("fourfold-after-uncounted", "4k3/8/8/8/8/8/8/4K1N1 w - -", "g1f3 e8d8 f3g1 d8e8 g1f3 e8d8 f3g1 d8e8 g1f3"),
    // the third occurrence arises with the side to move in check
    ("perpetual-check", "1k6/p1p5/8/8/8/8/4Q3/7K w - -", "e2b5 b8a8 b5c6 a8b8 c6b5 b8a8 b5c6 a8b8 c6b5 b8a8"),
    ("perpetual-check-black", "7k/4q3/8/8/8/8/P1P5/1K6 b - -", "e7b4 b1a1 b4c3 a1b1 c3b4 b1a1 b4c3 a1b1 c3b4 b1a1"),
    // an unmoved corner rook takes the unmoved corner rook, a second rook recaptures on the corner: no castling there any more
    ("corner-rooks-trade-a", "rr2k3/8/8/8/8/8/8/R3K3 w Qq -", "a1a8 b8a8 e1e2 a8a7 e2e1 a7a8 e1e2"),
    ("corner-rooks-trade-h", "4k2r/8/8/8/8/8/8/4K1RR b Kk -", "h8h1 g1h1 e8e7 h1h2 e7e8 h2h1 e8e7"),
    ("corner-rooks-trade-h-w", "4k1rr/8/8/8/8/8/8/4K2R w Kk -", "h1h8 g8h8 e1e2 h8h7 e2e1 h7h8 e1e2"),
    ("corner-rooks-trade-a-b", "r3k3/8/8/8/8/8/8/RR2K3 b Qq -", "a8a1 b1a1 e8e7 a1a2 e7e8 a2a1 e8e7"),
];

pub fn parse_fen(fen: &str) -> Pos {
    let parts: Vec<&str> = fen.split_whitespace().collect();
    let mut b = [0u8; 64];
    for (i, row) in parts[0].split('/').enumerate() {
        let r = 7 - i;
        let mut f = 0;
        for ch in row.chars() {
            if let Some(d) = ch.to_digit(10) {
                f += d as usize;
            } else {
                b[r * 8 + f] = "PNBRQKpnbrqk".find(ch).unwrap() as u8 + 1;
                f += 1;
            }
        }
    }
    let cr = parts[2];
    let rights = (if cr.contains('K') { 8 } else { 0 }) + (if cr.contains('k') { 4 } else { 0 }) + (if cr.contains('Q') { 2 } else { 0 }) + (if cr.contains('q') { 1 } else { 0 });
    let ep = if parts[3] == "-" { 0 } else { let c: Vec<char> = parts[3].chars().collect(); (c[0] as u8 - b'a') + (c[1] as u8 - b'1') * 8 + 1 };
    Pos { b, turn: if parts[1] == "w" { 1 } else { 0 }, rights, ep }
}

/// direct editing of a board through the public API, including operations that are refused
fn edit_history(tr: &mut Tracer, rng: &mut Rng, ops: usize) {
    let mut board = Board::new();
    tr.emit(json!({"ev": "EReset"}), &board);
    let mut ep_depth = 0;
    for _ in 0..ops {
        match rng.below(10) {
            0..=4 => {
                let sq = 1 + rng.below(64) as u32;
                let code = 1 + rng.below(12) as u8;
                let (p, c) = piece_of_code(code);
                let res = match guarded(|| board.put(bb(sq), p, c)) {
                    Ok(Ok(())) => "ok".to_string(),
                    Ok(Err(_)) => "err".to_string(),
                    Err(e) => format!("panic: {}", e),
                };
                tr.emit(json!({"ev": "Put", "sq": sq, "code": code, "res": res}), &board);
            }
            5..=6 => {
                let sq = 1 + rng.below(64) as u32;
                let res = match guarded(|| board.remove(bb(sq))) {
                    Ok(Some((p, c))) => code(p, c) as u64,
                    Ok(None) => 0,
                    Err(_) => 99,
                };
                tr.emit(json!({"ev": "Remove", "sq": sq, "res": res}), &board);
            }
            7 => {
                let mask = rng.below(16) as u8;
                board.lose_castle_rights(mask);
                tr.emit(json!({"ev": "LoseRights", "mask": mask}), &board);
            }
            8 => {
                if ep_depth > 0 && rng.chance(1, 2) {
                    board.pop_en_passant_target();
                    ep_depth -= 1;
                    tr.emit(json!({"ev": "PopEp"}), &board);
                } else {
                    let e = if rng.chance(1, 4) { 0 } else { (if rng.chance(1, 2) { 17 } else { 41 }) + rng.below(8) as u32 };
                    board.push_en_passant_target(bb(e));
                    ep_depth += 1;
                    tr.emit(json!({"ev": "PushEp", "sq": e}), &board);
                }
            }
            _ => {
                board.toggle_turn();
                tr.emit(json!({"ev": "Toggle"}), &board);
            }
        }
    }
}

/// record-trace <out> --scenario walk|clock|repetition|scripts --seed N --games G --plies P [--seeds file] [--sum]
const CASTLE_READY: [&str; 5] = [
    "r3k2r/pppppppp/8/8/8/8/PPPPPPPP/R3K2R w KQkq -",
    "r3k2r/p1pp1ppp/8/1p2p3/1P2P3/8/P1PP1PPP/R3K2R w KQkq -",
    "r3k2r/2p2p2/8/1P1pP1P1/1p1Pp1p1/8/2P2P2/R3K2R b KQkq -",
    "r3k2r/8/8/3pP3/3Pp3/8/8/R3K2R w KQkq -",
    "r3k2r/p6p/8/1P4P1/1p4p1/8/P6P/R3K2R w KQkq -",
];

pub fn main(args: &[String]) {
    let out_path = &args[0];
    let seed = arg_u64(args, "--seed", 1);
    let games = arg_u64(args, "--games", 10) as usize;
    let plies = arg_u64(args, "--plies", 100) as usize;
    let scenario = arg_val(args, "--scenario").unwrap_or("walk".into());
    let with_sum = has_flag(args, "--sum");
    let seeds: Vec<Pos> = match arg_val(args, "--seeds") {
        Some(p) => read_ndjson(&p).iter().map(Pos::from_json).collect(),
        None => vec![],
    };
    let mut file = std::io::BufWriter::new(std::fs::File::create(out_path).unwrap());
    writeln!(file, "{}", tables_record()).unwrap();
    let mut rng = Rng::new(seed);
    let mut tr = Tracer { out: &mut file, with_sum, events: 0 };
    let mut gen = MoveGenerator::new();
    let mut histories = 0;
    if scenario == "edit" {
        for _ in 0..games {
            edit_history(&mut tr, &mut rng, plies);
            histories += 1;
        }
    } else if scenario == "marathon" {
        if let Err(p) = guarded(|| marathon(&mut tr, &mut gen)) {
            writeln!(tr.out, "{}", json!({"ev": "Crash", "panic": p})).unwrap();
            tr.events += 1;
        }
        histories += 1;
    } else if scenario == "scripts" {
        for (_, fen, mv) in SCRIPTS.iter() {
            let ms: Vec<&str> = mv.split_whitespace().collect();
            scripted(&mut tr, &mut gen, parse_fen(fen).setup(), &ms);
            histories += 1;
        }
    } else {
        for g in 0..games {
            let start = if scenario == "walk" && g % 3 == 1 {
                // castling available at once on both wings, pawns about to meet: rights are lost, en passant
                // arises, and undo bursts come back to positions in which castling is legal
                parse_fen(CASTLE_READY[rng.below(CASTLE_READY.len())]).setup()
            } else if seeds.is_empty() || (scenario == "walk" && g % 3 == 0) || (scenario == "clock" && (g % 4 == 2 || plies >= 1000)) {
                Board::starting_position()
            } else {
                let p = &seeds[rng.below(seeds.len())];
                // clocks start at various values so that thresholds are crossed early in some histories
                if scenario == "clock" && g % 2 == 1 {
                    // counters start at various values so that 99/100 and 254/255/256 are crossed early
                    p.setup_clocks(40 + (rng.below(60) as u64), [1u64, 60, 200, 240][rng.below(4)] + rng.below(10) as u64)
                } else {
                    p.setup()
                }
            };
            let from_start = scenario == "clock" && (g % 4 == 2 || plies >= 1000);
            // the board's own getters are called unguarded while events are written: if one of them panics
            // (a corrupted history stack), the history ends with a Crash event instead of taking the recorder down
            if let Err(p) = guarded(|| walk(&mut tr, &mut rng, &mut gen, start, plies, &scenario, from_start)) {
                writeln!(tr.out, "{}", json!({"ev": "Crash", "panic": p})).unwrap();
                tr.events += 1;
                gen = MoveGenerator::new();
            }
            histories += 1;
        }
    }
    let n = tr.events;
    drop(tr);
    file.flush().unwrap();
    println!("{}", json!({"events": n, "histories": histories}));
}
