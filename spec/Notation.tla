------------------------------ MODULE Notation ------------------------------
(***************************************************************************)
(* Move text: Standard Algebraic Notation and long coordinate (UCI) text,  *)
(* and the matching of typed input against the legal moves (C13 C14 C19).  *)
(* Text is built by concatenating one-character strings, never parsed.     *)
(***************************************************************************)
EXTENDS Rules

FileCh == <<"a","b","c","d","e","f","g","h">>
RankCh == <<"1","2","3","4","5","6","7","8">>
SqStr(s) == IF s = 0 THEN "-" ELSE FileCh[File(s) + 1] \o RankCh[Rank(s) + 1]
KindCh == <<"", "N", "B", "R", "Q", "K">>
LowKind == <<"", "n", "b", "r", "q", "k">>

\* compact, order-preserving-free encoding of a position for oracle files:
\* eight base-13 rank integers (< 2^31), side to move, rights, ep
RankInt(b, r) == LET o == r * 8 IN
  b[o+1] + 13 * (b[o+2] + 13 * (b[o+3] + 13 * (b[o+4] + 13 * (b[o+5] + 13 * (b[o+6] + 13 * (b[o+7] + 13 * b[o+8]))))))
PosKey(pos) == << RankInt(pos.b, 0), RankInt(pos.b, 1), RankInt(pos.b, 2), RankInt(pos.b, 3),
                  RankInt(pos.b, 4), RankInt(pos.b, 5), RankInt(pos.b, 6), RankInt(pos.b, 7),
                  pos.turn, pos.rights, pos.ep >>

\* long coordinate text: castling is the king's two-square move, promotions carry a suffix
UCI(m) == SqStr(m.f) \o SqStr(m.t) \o (IF m.k = "P" THEN LowKind[m.p] ELSE "")

\* Standard Algebraic Notation of the legal move m, L = Legal(pos)   (FIDE Laws, appendix C)
\* (eff is passed in so that callers who also need Effect evaluate it once)
SANe(pos, m, L, eff) ==
  LET b == pos.b
      x == Kind(b[m.f])
  IN IF m.k = "C" THEN (IF m.t > m.f THEN "O-O" ELSE "O-O-O") \o eff
     ELSE
       LET others == { o \in L : o.f # m.f /\ o.t = m.t /\ Kind(b[o.f]) = x }
           sameFile == \E o \in others : File(o.f) = File(m.f)
           sameRank == \E o \in others : Rank(o.f) = Rank(m.f)
           dis == IF x = P THEN (IF m.c # 0 THEN FileCh[File(m.f) + 1] ELSE "")
                  ELSE IF others = {} THEN ""
                  ELSE IF ~sameFile THEN FileCh[File(m.f) + 1]
                  ELSE IF ~sameRank THEN RankCh[Rank(m.f) + 1]
                  ELSE SqStr(m.f)
       IN KindCh[x] \o dis \o (IF m.c # 0 THEN "x" ELSE "") \o SqStr(m.t)
          \o (IF m.k = "P" THEN "=" \o KindCh[m.p] ELSE "") \o eff

SAN(pos, m, L) == SANe(pos, m, L, Effect(pos, m))

\* typed coordinate pair: the legal moves it names; a promotion is played as a queen
CoordMatch(L, f, t) ==
  LET S == { m \in L : m.f = f /\ m.t = t }
  IN IF \E m \in S : m.k = "P" THEN { m \in S : m.p = Q } ELSE S

\* typed notation string: the legal moves whose SAN is exactly that string
LabelMatch(pos, L, s) == { m \in L : SAN(pos, m, L) = s }
=============================================================================
