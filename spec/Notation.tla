------------------------------ MODULE Notation ------------------------------
(***************************************************************************)
(* Move text: Standard Algebraic Notation and long coordinate (UCI) text,  *)
(* and the matching of typed input against the legal moves (C13 C14 C19).  *)
(* Text is built by concatenating one-character strings, never parsed.     *)
(***************************************************************************)
EXTENDS Rules

FileCh == <<"a","b","c","d","e","f","g","h">>
RankCh == <<"1","2","3","4","5","6","7","8">>
SqStr(s) == IF s = 0 THEN "-" ELSE FileCh[File(s) + 1] \o RankCh[Rank(s) + 1]
KindCh == <<"", "N", "B", "R", "Q", "K">>
LowKind == <<"", "n", "b", "r", "q", "k">>

\* compact, order-preserving-free encoding of a position for oracle files:
\* eight base-13 rank integers (< 2^31), side to move, rights, ep
RankInt(b, r) == LET o == r * 8 IN
  b[o+1] + 13 * (b[o+2] + 13 * (b[o+3] + 13 * (b[o+4] + 13 * (b[o+5] + 13 * (b[o+6] + 13 * (b[o+7] + 13 * b[o+8]))))))
PosKey(pos) == << RankInt(pos.b, 0), RankInt(pos.b, 1), RankInt(pos.b, 2), RankInt(pos.b, 3),
                  RankInt(pos.b, 4), RankInt(pos.b, 5), RankInt(pos.b, 6), RankInt(pos.b, 7),
                  pos.turn, pos.rights, pos.ep >>

\* long coordinate text: castling is the king's two-square move, promotions carry a suffix
UCI(m) == SqStr(m.f) \o SqStr(m.t) \o (IF m.k = "P" THEN LowKind[m.p] ELSE "")

\* Standard Algebraic Notation of the legal move m, L = Legal(pos)   (FIDE Laws, appendix C)
\* (eff is passed in so that callers who also need Effect evaluate it once)
SANe(pos, m, L, eff) ==
  LET b == pos.b
      x == Kind(b[m.f])
  IN IF m.k = "C" THEN (IF m.t > m.f THEN "O-O" ELSE "O-O-O") \o eff
     ELSE
       LET others == { o \in L : o.f # m.f /\ o.t = m.t /\ Kind(b[o.f]) = x }
           sameFile == \E o \in others : File(o.f) = File(m.f)
           sameRank == \E o \in others : Rank(o.f) = Rank(m.f)
           dis == IF x = P THEN (IF m.c # 0 THEN FileCh[File(m.f) + 1] ELSE "")
                  ELSE IF others = {} THEN ""
                  ELSE IF ~sameFile THEN FileCh[File(m.f) + 1]
                  ELSE IF ~sameRank THEN RankCh[Rank(m.f) + 1]
                  ELSE SqStr(m.f)
       IN KindCh[x] \o dis \o (IF m.c # 0 THEN "x" ELSE "") \o SqStr(m.t)
          \o (IF m.k = "P" THEN "=" \o KindCh[m.p] ELSE "") \o eff

SAN(pos, m, L) == SANe(pos, m, L, Effect(pos, m))

(***************************************************************************)
(* The line classifier of the command-line prompt (src/input_handler): a   *)
(* line is a sequence of one-character strings.  A coordinate pair is      *)
(* file rank file rank; a notation-shaped line is                          *)
(*   [NBRQK]? [a-h]? [1-8]? x? [a-h] [1-8] (= [NBRQ])? [+#]?               *)
(*   or O-O / O-O-O with an optional + or #;                               *)
(* every SAN string is notation-shaped, so no legal label may be refused   *)
(* as "invalid input" (checked on the real prompt: Trace_Engine Cli events).*)
(***************************************************************************)
FileSet == {"a","b","c","d","e","f","g","h"}
RankSet == {"1","2","3","4","5","6","7","8"}
IsCoordLine(cs) == Len(cs) = 4 /\ cs[1] \in FileSet /\ cs[2] \in RankSet /\ cs[3] \in FileSet /\ cs[4] \in RankSet
DropSuffix(cs) == IF Len(cs) > 0 /\ cs[Len(cs)] \in {"+", "#"} THEN SubSeq(cs, 1, Len(cs) - 1) ELSE cs
DropPromo(cs) == IF Len(cs) > 2 /\ cs[Len(cs) - 1] = "=" /\ cs[Len(cs)] \in {"N","B","R","Q"}
                 THEN SubSeq(cs, 1, Len(cs) - 2) ELSE cs
\* the part before the destination square: [NBRQK]? [a-h]? [1-8]? x?  in this order
RECURSIVE PrefixOk(_, _)
PrefixOk(cs, stage) ==
  IF cs = << >> THEN TRUE
  ELSE LET c == cs[1]  rest == SubSeq(cs, 2, Len(cs)) IN
       \/ (stage <= 1 /\ c \in {"N","B","R","Q","K"} /\ PrefixOk(rest, 2))
       \/ (stage <= 2 /\ c \in FileSet /\ PrefixOk(rest, 3))
       \/ (stage <= 3 /\ c \in RankSet /\ PrefixOk(rest, 4))
       \/ (stage <= 4 /\ c = "x" /\ rest = << >>)
IsNotationLine(cs) ==
  LET core == DropSuffix(cs) IN
  \/ core = <<"O","-","O">> \/ core = <<"O","-","O","-","O">>
  \/ LET body == DropPromo(core) IN
     /\ Len(body) >= 2 /\ body[Len(body) - 1] \in FileSet /\ body[Len(body)] \in RankSet
     /\ PrefixOk(SubSeq(body, 1, Len(body) - 2), 1)
ClassifyLine(cs) == IF IsCoordLine(cs) THEN "coordinate" ELSE IF IsNotationLine(cs) THEN "notation" ELSE "invalid"

\* typed coordinate pair: the legal moves it names; a promotion is played as a queen
CoordMatch(L, f, t) ==
  LET S == { m \in L : m.f = f /\ m.t = t }
  IN IF \E m \in S : m.k = "P" THEN { m \in S : m.p = Q } ELSE S

\* typed notation string: the legal moves whose SAN is exactly that string
LabelMatch(pos, L, s) == { m \in L : SAN(pos, m, L) = s }
=============================================================================
