---------------------------- MODULE Trace_Engine ----------------------------
(***************************************************************************)
(* B2 validator for histories: an NDJSON trace recorded from the REAL      *)
(* board (one event per public call, logged at the call's return with the  *)
(* full observable projection) is replayed through the mechanism of        *)
(* Engine.tla.  Every event must be an enabled action of the model whose   *)
(* result and post-state projection equal the logged ones.                 *)
(*                                                                         *)
(* line 1: {"ev":"Tables", base, pc[12][64], cr[16], ep[64]} -- the key    *)
(*         constants read black-box (four 16-bit limbs each)               *)
(* then histories, each starting with {"ev":"Reset","obs":..}:             *)
(*   Apply m res | Undo m | Toggle | Count res | Uncount res | Query name  *)
(*   | Ending res                                                          *)
(* every event carries "obs" (b, turn, cr, ep, hm, fm, key, seen) and      *)
(* optionally "sum" (loc[12], occw, occb, occ) for C12.                    *)
(*                                                                         *)
(* A step that does not conform is printed as one JSON line ("bad") and    *)
(* the rest of that history is skipped; the next Reset resumes validation, *)
(* so one defect does not hide the histories after it.  Acceptance: every  *)
(* line consumed (post-condition) and no "bad" line.                       *)
(***************************************************************************)
EXTENDS Engine, Json, IOUtils, Bitwise

Recs == ndJsonDeserialize(IOEnv.TRACE)
Tab == Recs[1]
NRec == Len(Recs)

VARIABLES l,      \* index of the next event to consume
          st,     \* model state
          keyS,   \* ghost: the keys the code reported, one per applied-and-not-undone move (bottom: at Reset)
          mode    \* "ok" | "skip" (after an out-of-scope step, until the next Reset)
vars == <<l, st, keyS, mode>>

(* ---- 64-bit keys as four 16-bit limbs ---- *)
X4(a, b) == << a[1] ^^ b[1], a[2] ^^ b[2], a[3] ^^ b[3], a[4] ^^ b[4] >>
RECURSIVE FoldPc(_, _, _)
FoldPc(b, i, acc) == IF i > 64 THEN acc
                     ELSE FoldPc(b, i + 1, IF b[i] = 0 THEN acc ELSE X4(acc, Tab.pc[b[i]][i]))
\* the key the position must have, from the black-box-read constants
KeyC(p) == LET k1 == FoldPc(p.b, 1, Tab.base)
               k2 == X4(k1, Tab.cr[p.rights + 1])
           IN IF p.ep = 0 THEN k2 ELSE X4(k2, Tab.ep[p.ep])

Ev == Recs[l]
SeqSet(s) == { s[j] : j \in 1..Len(s) }

PosOfObs(o) == [b |-> o.b, turn |-> o.turn, rights |-> o.cr, ep |-> o.ep]
MvOf(m) == Mv(m.k, m.f, m.t, m.p, m.c)
FromObs(o) == SetUp(PosOfObs(o), o.hm, o.fm)

\* the logged summaries agree with the logged squares (C12)
SumOk ==
  "sum" \notin DOMAIN Ev \/
  LET u == Ev.sum  b == Ev.obs.b IN
  /\ \A c \in 1..12 : /\ SeqSet(u.loc[c]) = { q \in Sq : b[q] = c }
                       /\ Len(u.loc[c]) = Cardinality({ q \in Sq : b[q] = c })
  /\ SeqSet(u.occw) = { q \in Sq : b[q] # 0 /\ Col(b[q]) = W }
  /\ SeqSet(u.occb) = { q \in Sq : b[q] # 0 /\ Col(b[q]) = Bl }
  /\ SeqSet(u.occ) = { q \in Sq : b[q] # 0 }

\* Which observables of the logged post-state differ from the model successor s.  "key", "sum"
\* and "inv" judge the logged state on its own (key = XOR of the constants of the logged
\* position; summaries = squares; representation invariant), independent of the history.
DiffSet(s, keyRule) ==
  LET o == Ev.obs
      T(c, n) == IF c THEN {n} ELSE {}
  IN T(\E q \in Sq : o.b[q] # s.b[q], "placement") \cup T(o.turn # s.turn, "turn")
     \cup T(o.cr # Last(s.crS), "cr") \cup T(o.ep # Last(s.epS), "ep")
     \cup T(o.hm # Last(s.hmS), "hm") \cup T(o.fm # s.fm, "fm") \cup T(o.seen # Last(s.seenS), "seen")
     \cup T("last" \in DOMAIN o /\ (IF o.last.k = "-" THEN s.hist # << >>
                                     ELSE s.hist = << >> \/ MvOf(o.last) # Last(s.hist)), "history")
     \cup T("gfm" \in DOMAIN o /\ o.gfm # s.fm, "gfm")     \* the Game's own move counter
     \cup T(o.key # KeyC(PosOfObs(o)), "key")
     \cup T(~SumOk, "sum")
     \cup T(~BoardInv(PosOfObs(o)), "inv")
     \cup T(keyRule = "stable" /\ o.key # Last(keyS), "keyStable")
     \cup T(keyRule = "restored" /\ Len(keyS) >= 2 /\ o.key # keyS[Len(keyS) - 1], "keyRestored")

Detail(s) ==
  LET o == Ev.obs IN
  [ placement |-> { q \in Sq : o.b[q] # s.b[q] },
    turn |-> <<o.turn, s.turn>>, cr |-> <<o.cr, Last(s.crS)>>, ep |-> <<o.ep, Last(s.epS)>>,
    hm |-> <<o.hm, Last(s.hmS)>>, fm |-> <<o.fm, s.fm>>, seen |-> <<o.seen, Last(s.seenS)>> ]

\* continue from what the code actually has, so that one defect is reported where it happens
\* and does not hide the steps after it
ReplaceTop(seq, x) == Append(Front(seq), x)
Resync(s) ==
  LET o == Ev.obs
      s1 == [s EXCEPT !.b = o.b, !.turn = o.turn, !.crS = ReplaceTop(s.crS, o.cr),
                      !.epS = ReplaceTop(s.epS, o.ep), !.hmS = ReplaceTop(s.hmS, o.hm),
                      !.fm = o.fm, !.seenS = ReplaceTop(s.seenS, o.seen)]
  IN [s1 EXCEPT !.key = KeyOf(Abs(s1))]

\* RESYNC=0 in the environment: the model never adopts the code's state -- it stays the TRUTH the history
\* leads to (used by C01: the moves generated on the code's board are judged against the true position)
NoResync == "RESYNC" \in DOMAIN IOEnv /\ IOEnv.RESYNC = "0"

Bad(why, d, x) == PrintT(ToJson([bad |-> l, ev |-> Ev.ev, why |-> why, diff |-> d, x |-> x]))
Skip(why) == PrintT(ToJson([skip |-> l, why |-> why]))

Advance == l' = l + 1
Keep == st' = st /\ keyS' = keyS
KeyStep(rule) == keyS' = CASE rule = "push" -> Append(keyS, Ev.obs.key)
                           [] rule = "restored" -> (IF Len(keyS) >= 2 THEN Front(keyS) ELSE keyS)
                           [] rule = "set" -> Append(Front(keyS), Ev.obs.key)      \* an edit: the key legitimately changes
                           [] OTHER -> keyS
\* accept the event with model successor s; differences are reported and the model resynchronised
Accept(s0, why, rule) ==
  \E s \in {s0} : \E d \in {DiffSet(s, rule)} :     \* (bound variables: evaluated once)
  /\ (IF d = {} THEN TRUE ELSE Bad(why, d, Detail(s)))   \* (IF, not \/: TLC explores both disjuncts of an action)
  /\ st' = (IF NoResync \/ d \cap {"placement", "turn", "cr", "ep", "hm", "fm", "seen"} = {} THEN s ELSE Resync(s))
  /\ KeyStep(rule) /\ mode' = "ok" /\ Advance
\* a wrong result value: report, continue with the model's successor
Reject(s, why, x, rule) ==
  /\ Bad(why, {"result"}, x)
  /\ st' = s /\ KeyStep(rule) /\ mode' = "ok" /\ Advance
\* the call failed / panicked: the real board is unusable, the recorder abandons the history
Broken(why, x) == Bad(why, {"failed"}, x) /\ Keep /\ mode' = "skip" /\ Advance
OutOfScope(why) == Skip(why) /\ Keep /\ mode' = "skip" /\ Advance

TReset ==
  /\ Ev.ev = "Reset"
  /\ LET s == FromObs(Ev.obs)
         d == DiffSet(s, "none") \cup (IF Ev.obs.seen # 1 THEN {"seen"} ELSE {})
     IN IF ~Consistent(Abs(s)) /\ ~Consistent(Abs(ToggleTurn(s)))
        THEN OutOfScope("history starts from an inconsistent position")
        ELSE /\ (IF d = {} THEN TRUE ELSE Bad("a freshly set-up board is not what was set up", d, Detail(s)))
             /\ st' = s /\ keyS' = <<Ev.obs.key>> /\ mode' = "ok" /\ Advance

TSkipped == Ev.ev \notin {"Reset", "GReset", "CliReset", "EReset"} /\ mode = "skip" /\ Keep /\ mode' = "skip" /\ Advance

TApply ==
  /\ Ev.ev = "Apply" /\ mode = "ok"
  /\ LET m == Mv(Ev.m.k, Ev.m.f, Ev.m.t, Ev.m.p, Ev.m.c) IN
     IF m \notin Legal(Abs(st)) THEN OutOfScope("applied move is not legal here (C01's business)")
     ELSE IF Ev.res # "ok" THEN Broken("applying a legal move failed", Ev.res)
     ELSE Accept(ApplyMove(st, m), "state after apply differs from the model", "push")

TUndo ==
  /\ Ev.ev = "Undo" /\ mode = "ok"
  /\ LET m == Mv(Ev.m.k, Ev.m.f, Ev.m.t, Ev.m.p, Ev.m.c) IN
     IF Len(st.hmS) < 2 \/ Len(st.epS) < 2 \/ Len(st.crS) < 2 THEN OutOfScope("undo without a matching apply")
     ELSE IF Ev.res # "ok" THEN Broken("undo failed", Ev.res)
     ELSE Accept(UndoMove(st, m), "state after undo differs from the state before the move", "restored")

\* a copy of the board (Board::clone -- what every root task of the search and the position counter
\* work on) is the board: Ev.obs is the COPY's projection; the model does not move
TClone == Ev.ev = "Clone" /\ mode = "ok" /\ Accept(st, "a copy of the board differs from the board", "none")
\* ... including its history: taking the last move back on the copy gives the state before that move
TCloneUndo ==
  /\ Ev.ev = "CloneUndo" /\ mode = "ok"
  /\ IF Len(st.hmS) < 2 \/ Len(st.epS) < 2 \/ Len(st.crS) < 2 THEN OutOfScope("undo without a matching apply")
     ELSE IF "failed" \in DOMAIN Ev THEN Bad("taking the last move back on a copy of the board failed", {"failed"}, Ev.m) /\ Keep /\ mode' = "ok" /\ Advance
     ELSE \E s \in {UndoMove(ToggleTurn(IF Ev.reg THEN Uncount(st) ELSE st), MvOf(Ev.m))} : \E d \in {DiffSet(s, "none") \ {"history"}} :
          /\ (IF d = {} THEN TRUE ELSE Bad("taking the last move back on a copy of the board does not give the state before the move", d, Detail(s)))
          /\ Keep /\ mode' = "ok" /\ Advance

\* the moves a freshly created generator returns on the code's board at this point of the history must be
\* the legal moves of the position the history leads to (C01 "reachable by legal play", undos included)
TMoves ==
  /\ Ev.ev = "Moves" /\ mode = "ok"
  /\ \E L \in {Legal(Abs(st))} : \E got \in {{ MvOf(Ev.mv[j]) : j \in 1..Len(Ev.mv) }} :
       IF Ev.panic # "" THEN Broken("generating the moves of a position reached by legal moves and undos panicked", Ev.panic)
       ELSE IF got # L THEN Reject(st, "the moves generated on the board differ from the legal moves of the position the history leads to", [extra |-> got \ L, missing |-> L \ got], "stable")
       ELSE IF Cardinality(got) # Len(Ev.mv) THEN Reject(st, "duplicate moves", Len(Ev.mv), "stable")
       ELSE Accept(st, "generating moves changed the caller's board", "stable")

\* a getter of the board itself panicked while the recorder was reading the state (no projection available)
TCrash == Ev.ev = "Crash" /\ mode = "ok" /\ Bad("reading the board's state panicked (corrupted history stacks)", {"failed"}, Ev.panic) /\ Keep /\ mode' = "skip" /\ Advance

TToggle == Ev.ev = "Toggle" /\ mode = "ok" /\ Accept(ToggleTurn(st), "state after toggle_turn differs", "stable")

TCount ==
  /\ Ev.ev = "Count" /\ mode = "ok"
  /\ \E s \in {Count(st)} :
     IF Ev.panic # "" THEN Broken("registering a position panicked", Ev.panic)
     ELSE IF Ev.res # Last(s.seenS)
     THEN Reject(s, "reported occurrence count differs from the number of registrations of this position", <<Ev.res, Last(s.seenS)>>, "stable")
     ELSE Accept(s, "state after count_current_position differs", "stable")

TUncount ==
  /\ Ev.ev = "Uncount" /\ mode = "ok"
  /\ IF ~CanUncount(st) THEN OutOfScope("unregistering a position that is not registered")
     ELSE \E s \in {Uncount(st)} :
          IF Ev.panic # "" THEN Broken("unregistering a registered position panicked", Ev.panic)
          ELSE IF Ev.res # CountOf(s, RepKey(s))
          THEN Reject(s, "count after unregistering differs", <<Ev.res, CountOf(s, RepKey(s))>>, "stable")
          ELSE Accept(s, "state after uncount_current_position differs", "stable")

\* generation, annotation, notation, search: the caller's board must come back untouched
TQuery == Ev.ev = "Query" /\ mode = "ok" /\ Accept(st, "a query changed the caller's board", "stable")

\* evaluate::game_ending at the current position (side = board.turn())
DrawThreshold == 100
TEnding ==
  /\ Ev.ev = "Ending" /\ mode = "ok"
  /\ \E p \in {Abs(st)} : \E L \in {Legal(p)} :
     LET rep == Last(st.seenS) = 3
         \* beyond the third occurrence the game is already over; what is reported then is not judged
         repMore == Last(st.seenS) > 3
         fifty == Last(st.hmS) >= DrawThreshold
         v == Verdict(p, L)
         info == [res |-> Ev.res, want |-> v, hm |-> Last(st.hmS), seen |-> Last(st.seenS)]
     IN IF ~Consistent(p) THEN OutOfScope("verdict asked on an inconsistent position")
        ELSE IF Ev.panic # "" THEN Broken("asking for the game ending panicked", Ev.panic)
        \* precedence between a draw claim and mate/stalemate on the same ply is not judged
        ELSE IF L = {} /\ (rep \/ repMore \/ fifty) THEN Accept(st, "game_ending changed the board", "stable")
        ELSE IF fifty /\ Ev.res # "draw" THEN Reject(st, "draw by move count not reported", info, "stable")
        ELSE IF rep /\ Ev.res # "draw" THEN Reject(st, "draw by repetition not reported", info, "stable")
        ELSE IF repMore /\ Ev.res \in {"draw", v} THEN Accept(st, "game_ending changed the board", "stable")
        ELSE IF ~(rep \/ fifty) /\ Ev.res = "draw" THEN Reject(st, "draw reported too early", info, "stable")
        ELSE IF ~(rep \/ fifty) /\ Ev.res # v THEN Reject(st, "game ending differs", info, "stable")
        ELSE Accept(st, "game_ending changed the board", "stable")

(***************************************************************************)
(* Direct editing of a board (Board::new, put, remove, lose_castle_rights,  *)
(* push/pop_en_passant_target): the set-up API of the properties.  A put on *)
(* an occupied square is refused and changes nothing; every state's key is  *)
(* the XOR of the constants of what is on the board (C05, "direct set-up"). *)
(***************************************************************************)
TEReset == Ev.ev = "EReset" /\ \E s \in {EmptyEngine} :
             /\ (IF DiffSet(s, "none") \ {"inv"} = {} THEN TRUE ELSE Bad("a new board is not the empty board", DiffSet(s, "none"), Detail(s)))
             /\ st' = s /\ keyS' = <<Ev.obs.key>> /\ mode' = "ok" /\ Advance
TPut ==
  /\ Ev.ev = "Put" /\ mode = "ok"
  /\ IF st.b[Ev.sq] = 0
     THEN (IF Ev.res # "ok" THEN Reject(st, "putting a piece on an empty square was refused", Ev.res, "none")
           ELSE Accept(Put(st, Ev.sq, Ev.code), "state after put differs", "set"))
     ELSE (IF Ev.res # "err" THEN Reject(st, "putting a piece on an occupied square was not refused", Ev.res, "none")
           ELSE Accept(st, "a refused put changed the board", "stable"))
TRemove ==
  /\ Ev.ev = "Remove" /\ mode = "ok"
  /\ IF Ev.res # st.b[Ev.sq] THEN Reject(Remove(st, Ev.sq), "remove returned the wrong piece", <<Ev.res, st.b[Ev.sq]>>, "set")
     ELSE Accept(Remove(st, Ev.sq), "state after remove differs", "set")
TLoseRights == Ev.ev = "LoseRights" /\ mode = "ok" /\ Accept(LoseRights(st, Ev.mask), "state after lose_castle_rights differs", "set")
TPushEp == Ev.ev = "PushEp" /\ mode = "ok" /\ Accept(PushEp(st, Ev.sq), "state after push_en_passant_target differs", "set")
TPopEp == Ev.ev = "PopEp" /\ mode = "ok" /\ Len(st.epS) >= 2 /\ Accept(PopEp(st), "state after pop_en_passant_target differs", "set")

(***************************************************************************)
(* Game-level events (Game API): typed input, engine move, game over       *)
(***************************************************************************)
TGReset ==
  /\ Ev.ev = "GReset"
  /\ LET s == GameStart(FromObs(Ev.obs)) IN
     IF ~Consistent(Abs(s)) THEN OutOfScope("game starts from an inconsistent position")
     ELSE st' = s /\ keyS' = <<Ev.obs.key>> /\ mode' = "ok" /\ Advance

TCliReset ==
  /\ Ev.ev = "CliReset"
  /\ st' = GameStart(FromObs(Ev.obs)) /\ keyS' = <<Ev.obs.key>> /\ mode' = "ok" /\ Advance

TGToggle == Ev.ev = "GToggle" /\ mode = "ok" /\ Accept(GameToggle(st), "state after toggle_turn differs", "stable")

\* a run of coordinate pairs that were all refused: each must name no legal move, nothing may have changed
\* (bound variables are evaluated once; LET definitions inside actions are re-evaluated at every use)
TCoordBatch ==
  /\ Ev.ev = "CoordBatch" /\ mode = "ok"
  /\ \E L \in {Legal(Abs(st))} :
     \E wrong \in {{ j \in 1..Len(Ev.pairs) : CoordMatch(L, Ev.pairs[j][1], Ev.pairs[j][2]) # {} }} :
        IF wrong # {}
        THEN Reject(st, "a coordinate pair naming a legal move was refused", { Ev.pairs[j] : j \in wrong }, "stable")
        ELSE Accept(st, "a refused coordinate pair changed the game", "stable")

TCoord ==
  /\ Ev.ev = "Coord" /\ mode = "ok"
  /\ \E L \in {Legal(Abs(st))} : \E M \in {CoordMatch(L, Ev.f, Ev.t)} : \E m \in {MvOf(Ev.res)} :
        IF M = {} THEN Broken("a coordinate pair naming no legal move was accepted", [f |-> Ev.f, t |-> Ev.t, played |-> m])
        ELSE IF m \notin M THEN Broken("an accepted coordinate pair played a different move", [want |-> M, played |-> m])
        ELSE Accept(GamePlay(st, m), "state after an accepted coordinate pair differs", "push")

TLabelBatch ==
  /\ Ev.ev = "LabelBatch" /\ mode = "ok"
  /\ \E p \in {Abs(st)} : \E L \in {Legal(p)} : \E sans \in {{ SAN(p, m, L) : m \in L }} :
     \E wrong \in {{ j \in 1..Len(Ev.labels) : Ev.labels[j] \in sans }} :
        IF wrong # {}
        THEN Reject(st, "the notation of a legal move was refused", { Ev.labels[j] : j \in wrong }, "stable")
        ELSE Accept(st, "a refused notation string changed the game", "stable")

TLabel ==
  /\ Ev.ev = "Label" /\ mode = "ok"
  /\ \E p \in {Abs(st)} : \E L \in {Legal(p)} : \E M \in {LabelMatch(p, L, Ev.s)} : \E m \in {MvOf(Ev.res)} :
        IF M = {} THEN Broken("a notation string naming no legal move was accepted", [s |-> Ev.s, played |-> m])
        ELSE IF m \notin M THEN Broken("an accepted notation string played a different move", [want |-> M, played |-> m])
        ELSE Accept(GamePlay(st, m), "state after an accepted notation string differs", "push")

\* select_waterfall_book_then_alpha_beta_best_move / select_alpha_beta_best_move: the board is
\* untouched and, when a legal move exists, the answer is one of the legal moves
\* the labelled move list the Game hands to its front ends: exactly the legal moves, each with its notation
TGLabels ==
  /\ Ev.ev = "GLabels" /\ mode = "ok"
  /\ \E p \in {Abs(st)} : \E L \in {Legal(p)} :
     \E listed \in {{ MvOf(Ev.labels[j][1]) : j \in 1..Len(Ev.labels) }} :
     \E wrong \in {{ j \in 1..Len(Ev.labels) : MvOf(Ev.labels[j][1]) \in L /\ SAN(p, MvOf(Ev.labels[j][1]), L) # Ev.labels[j][2] }} :
       IF listed # L THEN Reject(st, "the game lists labels for moves that are not the legal moves of its position", [extra |-> listed \ L, missing |-> L \ listed], "stable")
       ELSE IF wrong # {} THEN Reject(st, "a label listed by the game is not the notation of its move", { Ev.labels[j] : j \in wrong }, "stable")
       ELSE Accept(st, "listing the labels changed the game", "stable")

TEngineMove ==
  /\ Ev.ev = "EngineMove" /\ mode = "ok"
  /\ \E L \in {Legal(Abs(st))} :
     IF L = {} THEN
        (IF Ev.res.ok THEN Reject(st, "a move was produced in a position without legal moves", Ev.res, "stable")
         ELSE Accept(st, "asking for the engine's move changed the board", "stable"))
     ELSE IF ~Ev.res.ok THEN Reject(st, "the engine produced an error although a legal move exists", Ev.res, "stable")
     ELSE IF MvOf(Ev.res.m) \notin L THEN Reject(st, "the engine's move is not legal", Ev.res, "stable")
     ELSE Accept(st, "asking for the engine's move changed the board", "stable")

\* the outgoing edges of a node of the compiled opening book, reached by playing its prefix
\* from the standard start: every edge must be a legal move there (C15)
TBookEdges ==
  /\ Ev.ev = "BookEdges" /\ mode = "ok"
  /\ \E L \in {Legal(Abs(st))} :
     \E wrong \in {{ j \in 1..Len(Ev.edges) : CoordMatch(L, Ev.edges[j][1], Ev.edges[j][2]) = {} }} :
        IF wrong # {}
        THEN Reject(st, "the opening book continues with a move that is not legal", [edges |-> { Ev.edges[j] : j \in wrong }, after |-> st.hist], "stable")
        ELSE Accept(st, "reading the book changed the game", "stable")

\* alpha_beta_search on the current position (C07): res.kind is "ok" (with the move),
\* "NoAvailableMoves", "DepthTooLow", "panic" or "timeout"
TSearch ==
  /\ Ev.ev = "Search" /\ mode = "ok"
  /\ \E L \in {Legal(Abs(st))} : \E r \in {Ev.res} :
     IF ~Consistent(Abs(st)) THEN OutOfScope("search asked on an inconsistent position")
     ELSE IF r.kind \in {"panic", "timeout"} THEN Broken("the search panicked or did not return", [depth |-> Ev.depth, threads |-> Ev.threads, res |-> r])
     ELSE IF Ev.depth = 0 /\ L = {}
          THEN (IF r.kind \in {"NoAvailableMoves", "DepthTooLow"} THEN Accept(st, "the search changed the caller's board", "stable")
                ELSE Reject(st, "a move was returned at depth 0 in a position without legal moves", r, "stable"))
     ELSE IF Ev.depth = 0
          THEN (IF r.kind = "DepthTooLow" THEN Accept(st, "the search changed the caller's board", "stable")
                ELSE Reject(st, "depth 0 must be reported as too low", r, "stable"))
     ELSE IF L = {}
          THEN (IF r.kind = "NoAvailableMoves" THEN Accept(st, "the search changed the caller's board", "stable")
                ELSE Reject(st, "no legal move exists but the search did not report NoAvailableMoves", r, "stable"))
     ELSE IF r.kind # "ok" THEN Reject(st, "a legal move exists but the search returned an error", r, "stable")
     ELSE IF MvOf(r.m) \notin L THEN Reject(st, "the move returned by the search is not legal", r, "stable")
     ELSE Accept(st, "the search changed the caller's board", "stable")

\* one line typed at the `chess pvp` prompt (command-line level of C14): the program prints the
\* board before and after; only placement and side to move are visible.  An accepted line plays the
\* move and hands the turn over.
FileIx(c) == CASE c = "a" -> 0 [] c = "b" -> 1 [] c = "c" -> 2 [] c = "d" -> 3 [] c = "e" -> 4 [] c = "f" -> 5 [] c = "g" -> 6 [] OTHER -> 7
RankIx(c) == CASE c = "1" -> 0 [] c = "2" -> 1 [] c = "3" -> 2 [] c = "4" -> 3 [] c = "5" -> 4 [] c = "6" -> 5 [] c = "7" -> 6 [] OTHER -> 7
TCli ==
  /\ Ev.ev = "Cli" /\ mode = "ok"
  /\ \E p \in {Abs(st)} : \E L \in {Legal(p)} : \E cls \in {ClassifyLine(Ev.chars)} :
     \E M \in {CASE cls = "coordinate" -> CoordMatch(L, SqOf(FileIx(Ev.chars[1]), RankIx(Ev.chars[2])), SqOf(FileIx(Ev.chars[3]), RankIx(Ev.chars[4])))
                   [] cls = "notation" -> LabelMatch(p, L, Ev.s)
                   [] OTHER -> {}} :
       LET changed == Ev.b # st.b \/ Ev.turn # st.turn
           after(m) == GameToggle(GamePlay(st, m))
           hits == { m \in M : after(m).b = Ev.b /\ after(m).turn = Ev.turn }
           same == st' = st /\ keyS' = keyS /\ mode' = "ok" /\ Advance
       IN IF M = {} /\ changed THEN Broken("a typed line naming no legal move changed the position", Ev.s)
          \* the line classifier: malformed lines are "invalid input", well-formed ones reach the game
          ELSE IF cls = "invalid" /\ Ev.react # "invalid" THEN Reject(st, "a malformed line was not refused as invalid input", [s |-> Ev.s, react |-> Ev.react], "none")
          ELSE IF cls # "invalid" /\ Ev.react = "invalid" THEN Reject(st, "a well-formed line was refused as invalid input", [s |-> Ev.s, class |-> cls], "none")
          ELSE IF M = {} /\ cls # "invalid" /\ Ev.react # "error" THEN Reject(st, "a well-formed line naming no legal move was not answered with an error", [s |-> Ev.s, react |-> Ev.react], "none")
          ELSE IF M = {} THEN same
          ELSE IF ~changed THEN Reject(st, "a line naming a legal move was refused at the command line", Ev.s, "none")
          ELSE IF hits = {} THEN Broken("an accepted line played a different move", Ev.s)
          ELSE st' = after(CHOOSE m \in hits : TRUE) /\ keyS' = keyS /\ mode' = "ok" /\ Advance

\* one turn of the engine-versus-engine game loop (`chess watch`): the program prints the board, the
\* notation of the move just made, the side that made it and the half-move clock.  The move must be a
\* legal move of the position before it whose notation is the printed one, the printed board its
\* successor, the printed clock the model's clock; the loop then hands the turn over.
TWatch ==
  /\ Ev.ev = "Watch" /\ mode = "ok"
  /\ \E p \in {Abs(st)} : \E L \in {Legal(p)} : \E M \in {LabelMatch(p, L, Ev.last)} :
       LET hits == { m \in M : GamePlay(st, m).b = Ev.b }
       IN IF Ev.mover # st.turn THEN Reject(st, "the game loop did not alternate the side to move", [printed |-> Ev.mover, expected |-> st.turn], "none")
          ELSE IF M = {} THEN Broken("the engine played something that is not the printed legal move", [last |-> Ev.last])
          ELSE IF hits = {} THEN Broken("the board after the engine's move is not the successor of the printed move", [last |-> Ev.last])
          ELSE \E s \in {GamePlay(st, CHOOSE m \in hits : TRUE)} :
               IF Ev.hm # Last(s.hmS)
               THEN Reject(GameToggle(s), "printed half-move clock differs", <<Ev.hm, Last(s.hmS)>>, "none")
               ELSE st' = GameToggle(s) /\ keyS' = keyS /\ mode' = "ok" /\ Advance

\* the game loop's own verdict when it stops
TWatchEnd ==
  /\ Ev.ev = "WatchEnd" /\ mode = "ok"
  /\ \E p \in {Abs(st)} : \E L \in {Legal(p)} :
       LET v == Verdict(p, L)
           fifty == Last(st.hmS) >= DrawThreshold
           rep == Occurred(st) >= 3
           same == st' = st /\ keyS' = keyS /\ mode' = "ok" /\ Advance
       IN IF Ev.res = "checkmate" /\ v # "checkmate" THEN Reject(st, "the game loop announced a checkmate that is none", v, "none")
          ELSE IF Ev.res = "stalemate" /\ v # "stalemate" THEN Reject(st, "the game loop announced a stalemate that is none", v, "none")
          ELSE IF Ev.res = "draw" /\ ~(fifty \/ rep) THEN Reject(st, "the game loop announced a draw too early", [hm |-> Last(st.hmS), occurred |-> Occurred(st)], "none")
          ELSE IF Ev.res = "error" /\ L # {} THEN Reject(st, "the game loop stopped with an error although a legal move exists", Ev.msg, "none")
          ELSE same

\* one move of a game against the external engine (`chess determine-stockfish-elo`, the external
\* engine being a stand-in process that speaks its protocol).  Ev.by = "engine": the move was chosen
\* by the engine and Ev.u is the coordinate string under which it was sent to the other side in the
\* next "position startpos moves .." command ("" when the game ended before another command).
\* Ev.by = "stockfish": Ev.u is the reply read back from the other side; the move played must be the
\* legal move that string names and the board its successor.  Deliberate deviation of the code, modelled
\* as it is: the move reconstructed from a reply carries no check annotation, so it compares unequal to
\* every enumerated legal move and the loop prints "-" instead of its notation; any OTHER printed
\* notation must be that move's.
TBridge ==
  /\ Ev.ev = "Bridge" /\ mode = "ok"
  /\ \E p \in {Abs(st)} : \E L \in {Legal(p)} :
     \E MU \in {{ m \in L : UCI(m) = Ev.u }} : \E ML \in {LabelMatch(p, L, Ev.last)} :
       IF Ev.mover # st.turn THEN Reject(st, "the game loop did not alternate the side to move", [printed |-> Ev.mover, expected |-> st.turn], "none")
       ELSE IF Ev.by = "stockfish"
       THEN IF MU = {} THEN OutOfScope("the stand-in replied with a string naming no legal move")
            ELSE \E m \in {CHOOSE m \in MU : TRUE} : \E s \in {GamePlay(st, m)} :
                 IF s.b # Ev.b THEN Broken("the reply read back from the external engine was not played as the move it names", [u |-> Ev.u, last |-> Ev.last])
                 ELSE IF Ev.last # "-" /\ m \notin ML THEN Reject(GameToggle(s), "the move reconstructed from the external engine's reply is not the legal move it names", [u |-> Ev.u, printed |-> Ev.last, want |-> SAN(p, m, L)], "none")
                 ELSE IF Ev.hm # Last(s.hmS) THEN Reject(GameToggle(s), "printed half-move clock differs", <<Ev.hm, Last(s.hmS)>>, "none")
                 ELSE st' = GameToggle(s) /\ keyS' = keyS /\ mode' = "ok" /\ Advance
       ELSE \E hits \in {{ m \in ML : GamePlay(st, m).b = Ev.b }} :
            IF ML = {} THEN Broken("the engine played something that is not the printed legal move", [last |-> Ev.last])
            ELSE IF hits = {} THEN Broken("the board after the engine's move is not the successor of the printed move", [last |-> Ev.last])
            ELSE \E m \in {CHOOSE m \in hits : TRUE} : \E s \in {GamePlay(st, m)} :
                 IF Ev.u # "" /\ UCI(m) # Ev.u
                 THEN Reject(GameToggle(s), "the engine's move was sent to the external engine under a different coordinate string", [sent |-> Ev.u, want |-> UCI(m)], "none")
                 ELSE st' = GameToggle(s) /\ keyS' = keyS /\ mode' = "ok" /\ Advance

\* the result booked for a finished game against the external engine (Ev.engine: the engine's colour)
TBridgeEnd ==
  /\ Ev.ev = "BridgeEnd" /\ mode = "ok"
  /\ \E p \in {Abs(st)} : \E L \in {Legal(p)} :
       LET v == Verdict(p, L)
           drawn == Last(st.hmS) >= DrawThreshold \/ Occurred(st) >= 3
           want == IF v = "checkmate" /\ ~drawn THEN (IF st.turn = Ev.engine THEN "loss" ELSE "win")
                   ELSE IF v = "stalemate" \/ drawn THEN "draw" ELSE "unfinished"
           same == st' = st /\ keyS' = keyS /\ mode' = "ok" /\ Advance
       IN IF want = "unfinished" THEN Reject(st, "a game against the external engine was booked although it was not over", [res |-> Ev.res, hm |-> Last(st.hmS), occurred |-> Occurred(st)], "none")
          ELSE IF v = "checkmate" /\ drawn THEN same      \* mate on a drawn position: either booking is defensible
          ELSE IF Ev.res # want THEN Reject(st, "the result booked for a game against the external engine does not follow from its final position", [res |-> Ev.res, want |-> want], "none")
          ELSE same

TGEnding ==
  /\ Ev.ev = "GEnding" /\ mode = "ok"
  /\ \E p \in {Abs(st)} : \E L \in {Legal(p)} :
     LET rep == Occurred(st) >= 3
         fifty == Last(st.hmS) >= DrawThreshold
         v == Verdict(p, L)
         info == [res |-> Ev.res, want |-> v, hm |-> Last(st.hmS), occurred |-> Occurred(st)]
     IN IF L = {} /\ (rep \/ fifty) THEN Accept(st, "check_game_over changed the board", "stable")
        ELSE IF fifty /\ Ev.res # "draw" THEN Reject(st, "draw by move count not reported", info, "stable")
        ELSE IF rep /\ Ev.res # "draw" THEN Reject(st, "third occurrence of a position in a game not reported as a draw", info, "stable")
        ELSE IF ~(rep \/ fifty) /\ Ev.res = "draw" THEN Reject(st, "draw reported too early", info, "stable")
        ELSE IF ~(rep \/ fifty) /\ Ev.res # v THEN Reject(st, "game ending differs", info, "stable")
        ELSE Accept(st, "check_game_over changed the board", "stable")

Init == l = 2 /\ st = EmptyEngine /\ keyS = << >> /\ mode = "skip"
Next == l <= NRec /\ (TReset \/ TSkipped \/ TApply \/ TUndo \/ TToggle \/ TCount \/ TUncount \/ TQuery \/ TEnding
                       \/ TGReset \/ TGToggle \/ TCoordBatch \/ TCoord \/ TLabelBatch \/ TLabel \/ TEngineMove \/ TGEnding \/ TBookEdges \/ TSearch \/ TCli \/ TCliReset \/ TWatch \/ TWatchEnd \/ TBridge \/ TBridgeEnd \/ TClone \/ TCloneUndo \/ TMoves \/ TCrash \/ TGLabels
                       \/ TEReset \/ TPut \/ TRemove \/ TLoseRights \/ TPushEp \/ TPopEp)
Spec == Init /\ [][Next]_vars

\* the model itself must stay sane (a failure here is a defect of the specification, not of the code)
ModelKeyInv == mode = "ok" => KeyInv(st)
ModelBoardInv == mode = "ok" => BoardInv(Abs(st))

AllConsumed == IF TLCGet("stats").diameter = NRec THEN TRUE
               ELSE PrintT(ToJson([stuck |-> TLCGet("stats").diameter + 1])) /\ FALSE
=============================================================================
