-------------------------------- MODULE Tags --------------------------------
(***************************************************************************)
(* Vacuity guard: names for the rule interactions a position or a move     *)
(* exercises.  Each check lists the tags it needs; the driver counts the   *)
(* tags of the oracle records it replayed and refuses to report a pass if  *)
(* a required tag never occurred.                                          *)
(***************************************************************************)
EXTENDS Notation

ColCh(c) == IF c = W THEN "w" ELSE "b"
KindCh2 == <<"pawn", "knight", "bishop", "rook", "queen", "king">>

MoveTag(pos, m) ==
  LET c == ColCh(pos.turn) IN
  CASE m.k = "C" -> (IF m.t > m.f THEN "O-O:" ELSE "O-O-O:") \o c
    [] m.k = "E" -> "ep:" \o c
    [] m.k = "P" -> "promo" \o (IF m.c # 0 THEN "x" ELSE "") \o KindCh[m.p] \o ":" \o c
    [] IsDoubleStep(pos.b, m) -> "double:" \o c
    [] m.c # 0 -> "capture:" \o c
    [] OTHER -> "quiet:" \o c

PosTags(pos, L) ==
  LET b == pos.b  c == pos.turn  o == Opp(c)
      e == IF c = W THEN 5 ELSE 61
      ks == IF c = W THEN WK ELSE BK
      qs == IF c = W THEN WQ ELSE BQ
      chk == InCheck(pos)
      ksFree == HasRight(pos.rights, ks) /\ b[e+1] = 0 /\ b[e+2] = 0
      qsFree == HasRight(pos.rights, qs) /\ b[e-1] = 0 /\ b[e-2] = 0 /\ b[e-3] = 0
      checkers == { s \in Sq : b[s] # 0 /\ Col(b[s]) = o /\ KingSq(b, c) \in PieceAttacks(b, s) }
      epPseudo == { m \in Pseudo(pos) : m.k = "E" }
      T(cond, tag) == IF cond THEN {tag} ELSE {}
  IN T(chk, "check")
     \cup T(Cardinality(checkers) >= 2, "double-check")
     \cup T(L = {} /\ chk, "checkmate")
     \cup T(L = {} /\ ~chk, "stalemate")
     \cup T(Cardinality(L) = 1, "single-legal-move")
     \* both sides are forced for two plies in a row (fortresses, ladders): search depth bookkeeping
     \cup T(Cardinality(L) = 1 /\ \A m \in L : Cardinality(Legal(Succ(pos, m))) = 1, "forced-line")
     \cup T((ksFree \/ qsFree) /\ chk, "castle-out-of-check")
     \cup T(~chk /\ ((ksFree /\ AttackedBy(b, e+1, o)) \/ (qsFree /\ AttackedBy(b, e-1, o))), "castle-transit-attacked")
     \cup T(~chk /\ ((ksFree /\ ~AttackedBy(b, e+1, o) /\ AttackedBy(b, e+2, o))
                      \/ (qsFree /\ ~AttackedBy(b, e-1, o) /\ AttackedBy(b, e-2, o))), "castle-into-check")
     \cup T(~chk /\ qsFree /\ AttackedBy(b, e-3, o) /\ Mv("C", e, e-2, 0, 0) \in L, "castle-b-file-attacked")
     \cup T((Mv("C", e, e-2, 0, 0) \in L /\ AttackedBy(b, e-4, o))
             \/ (Mv("C", e, e+2, 0, 0) \in L /\ AttackedBy(b, e+3, o)), "castle-rook-attacked")
     \cup T(~chk /\ epPseudo \ L # {}, "ep-pinned")
     \cup T(chk /\ epPseudo \cap L # {}, "ep-in-check")
     \cup T(\E m \in L : m.k = "P" /\ chk, "promotion-in-check")
     \cup T(\E m \in L : m.c = R /\ m.t \in {1, 8, 57, 64}
                           /\ \E bit \in BitsOf(pos.rights) : RookHome(bit) = m.t, "home-rook-captured")
     \cup T(\E m \in L : m.k = "P" /\ m.c = R /\ \E bit \in BitsOf(pos.rights) : RookHome(bit) = m.t,
            "promotion-captures-home-rook")
     \* who takes the home rook matters to implementations that special-case movers
     \cup { "home-rook-captured-by-" \o KindCh2[Kind(b[m.f])] :
              m \in { x \in L : x.c = R /\ x.k = "S" /\ \E bit \in BitsOf(pos.rights) : RookHome(bit) = x.t } }
     \cup T(\E m1, m2 \in L : /\ m1.k # "C" /\ m2.k # "C" /\ m1.f # m2.f /\ m1.t = m2.t
                              /\ Kind(b[m1.f]) = Kind(b[m2.f]) /\ Kind(b[m1.f]) # P
                              /\ File(m1.f) # File(m2.f) /\ Rank(m1.f) # Rank(m2.f),
            "like-pieces-diff-file-rank")
     \cup T(\E m1, m2 \in L : /\ m1.k # "C" /\ m2.k # "C" /\ m1.f # m2.f /\ m1.t = m2.t
                              /\ Kind(b[m1.f]) = Kind(b[m2.f]) /\ Kind(b[m1.f]) # P
                              /\ File(m1.f) = File(m2.f), "like-pieces-same-file")
     \cup T(\E m1, m2 \in L : /\ m1.k # "C" /\ m2.k # "C" /\ m1.f # m2.f /\ m1.t = m2.t
                              /\ Kind(b[m1.f]) = Kind(b[m2.f]) /\ Kind(b[m1.f]) # P
                              /\ Rank(m1.f) = Rank(m2.f), "like-pieces-same-rank")
     \cup { MoveTag(pos, m) : m \in L }
=============================================================================
