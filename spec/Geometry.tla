------------------------------ MODULE Geometry ------------------------------
(***************************************************************************)
(* Board geometry of chess: squares, rays, leaper tables, slider reach.    *)
(* Squares are 1..64 with a1 = 1, b1 = 2, ... h8 = 64 (engine bit index    *)
(* plus one), so that JSON arrays written by the Rust harness map 1:1.     *)
(* Everything here is a constant-level definition; nothing is parsed or    *)
(* read from the implementation.                                           *)
(***************************************************************************)
EXTENDS Naturals, Integers, Sequences, FiniteSets

Sq == 1..64
File(s) == (s - 1) % 8          \* 0..7  (a..h)
Rank(s) == (s - 1) \div 8       \* 0..7  (1..8)
SqOf(f, r) == r * 8 + f + 1
OnBoard(f, r) == f >= 0 /\ f <= 7 /\ r >= 0 /\ r <= 7

\* directions 1..4 orthogonal (N, E, S, W), 5..8 diagonal (NE, SE, SW, NW)
Dirs == << <<0,1>>, <<1,0>>, <<0,-1>>, <<-1,0>>, <<1,1>>, <<1,-1>>, <<-1,-1>>, <<-1,1>> >>
OrthoDirs == 1..4
DiagDirs == 5..8

RECURSIVE RayBuild(_, _, _, _)
RayBuild(f, r, df, dr) ==
  IF OnBoard(f + df, r + dr)
  THEN <<SqOf(f + df, r + dr)>> \o RayBuild(f + df, r + dr, df, dr)
  ELSE << >>

\* Rays[s][d] = the squares met when walking from s in direction d, nearest first
Rays == [s \in Sq |-> [d \in 1..8 |-> RayBuild(File(s), Rank(s), Dirs[d][1], Dirs[d][2])]]

KnightD == { <<1,2>>, <<2,1>>, <<2,-1>>, <<1,-2>>, <<-1,-2>>, <<-2,-1>>, <<-2,1>>, <<-1,2>> }
KingD == { <<0,1>>, <<1,1>>, <<1,0>>, <<1,-1>>, <<0,-1>>, <<-1,-1>>, <<-1,0>>, <<-1,1>> }
Leap(s, D) == { SqOf(File(s) + d[1], Rank(s) + d[2]) :
                  d \in { e \in D : OnBoard(File(s) + e[1], Rank(s) + e[2]) } }
KnightT == [s \in Sq |-> Leap(s, KnightD)]
KingT == [s \in Sq |-> Leap(s, KingD)]

\* colour: 1 = white, 0 = black
\* squares a pawn of colour c standing on s attacks
PawnAtt == [c \in {0, 1} |-> [s \in Sq |->
   LET dr == IF c = 1 THEN 1 ELSE -1 IN Leap(s, { <<-1, dr>>, <<1, dr>> })]]
\* squares from which a pawn of colour c attacks s
PawnAttFrom == [c \in {0, 1} |-> [s \in Sq |->
   LET dr == IF c = 1 THEN -1 ELSE 1 IN Leap(s, { <<-1, dr>>, <<1, dr>> })]]

\* first occupied square along a ray (0 = none); b is a function Sq -> Nat, 0 = empty
RECURSIVE FirstOcc(_, _, _)
FirstOcc(b, ray, i) ==
  IF i > Len(ray) THEN 0
  ELSE IF b[ray[i]] # 0 THEN ray[i] ELSE FirstOcc(b, ray, i + 1)

\* squares reached along a ray up to and including the first occupied square
RECURSIVE RayReach(_, _, _)
RayReach(b, ray, i) ==
  IF i > Len(ray) THEN {}
  ELSE IF b[ray[i]] # 0 THEN {ray[i]} ELSE {ray[i]} \cup RayReach(b, ray, i + 1)

SliderDirs(kind) == CASE kind = "R" -> OrthoDirs [] kind = "B" -> DiagDirs [] OTHER -> 1..8

\* attack set of a slider of the given kind on sq, for an occupancy given as a set
SliderAttacks(kind, sq, occ) ==
  LET b == [s \in Sq |-> IF s \in occ THEN 1 ELSE 0]
  IN UNION { RayReach(b, Rays[sq][d], 1) : d \in SliderDirs(kind) }

\* the "relevant blockers" of magic bitboards: ray squares except the last of each ray
RelevantMask(kind, sq) ==
  UNION { LET r == Rays[sq][d] IN { r[i] : i \in 1..(Len(r) - 1) } : d \in SliderDirs(kind) }
=============================================================================
