---------------------------- MODULE MC_GenCache ----------------------------
(***************************************************************************)
(* Design-level model of the generator's caches (C02).  A long-lived       *)
(* generator keeps  (position key, colour) -> answer  and never forgets or *)
(* invalidates an entry, so after an arbitrary history its cache can hold  *)
(* the entry of ANY engine state some earlier query visited.  All query    *)
(* histories are therefore coherent exactly when no two visitable engine   *)
(* states share (key, colour) while a brand-new generator would answer     *)
(* differently for them.  The set of engine states reachable within        *)
(* MaxDepth plies of the seed (walks with undo revisit the same states:    *)
(* UndoRestores, MC_Engine) is computed as one value and checked.          *)
(*   CacheCoherent holds when the key is a function of the position        *)
(*   (KeyMode = "retire") and fails for the stale-en-passant design        *)
(*   (KeyMode = "accumulate": 1.a4 h6 2.a5 b5 / 1.a4 b5 2.a5 h6).          *)
(*   SigMode is what the caches index by: "full" = the whole key (the      *)
(*   code); "placement" = a signature that forgets the en-passant and      *)
(*   castling features (second negative control: any cache index that is   *)
(*   not injective on the visitable positions serves a stale answer; the   *)
(*   truncated-key changes of the seeded rounds are of this kind).         *)
(***************************************************************************)
EXTENDS Engine, Json, IOUtils
CONSTANTS MaxDepth, SigMode
Sig(k) == IF SigMode = "full" THEN k ELSE { f \in k : f[1] = "pc" }
Seeds == ndJsonDeserialize(IOEnv.SEEDS)
SeedPos(i) == [b |-> Seeds[i].b, turn |-> Seeds[i].turn, rights |-> Seeds[i].rights, ep |-> Seeds[i].ep]
VARIABLE seed
Init == seed \in { i \in 1..Len(Seeds) : Consistent(SeedPos(i)) }
Next == UNCHANGED seed
Spec == Init /\ [][Next]_seed

RECURSIVE Reach(_, _)
Reach(s, d) == IF d = 0 THEN {s}
               ELSE {s} \cup UNION { Reach(ToggleTurn(ApplyMove(s, m)), d - 1) : m \in Legal(Abs(s)) }

\* what the two caches hold for an engine state: legal moves and both attack maps
Answers(s) == <<Legal(Abs(s)), AttackMap(s.b, W), AttackMap(s.b, Bl)>>
Entries == { <<Sig(s.key), s.turn, Answers(s)>> : s \in Reach(SetUp(SeedPos(seed), 0, 1), MaxDepth) }
CacheCoherent == Cardinality(Entries) = Cardinality({ <<e[1], e[2]>> : e \in Entries })
=============================================================================
