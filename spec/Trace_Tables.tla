---------------------------- MODULE Trace_Tables ----------------------------
(***************************************************************************)
(* C05(b): the key constants, read black-box from the running code (first  *)
(* line of a trace: key of a one-piece board / of an empty board with each *)
(* rights set / with each ep target, all relative to the empty board).     *)
(* One fixed, non-zero, pairwise distinct constant per reachable (piece,   *)
(* colour, square), per en-passant square; rights sets pairwise distinct   *)
(* (a per-class constant is observable only up to the common base).        *)
(***************************************************************************)
EXTENDS Rules, Json, IOUtils
Recs == ndJsonDeserialize(IOEnv.TRACE)
Tab == Recs[1]
VARIABLE x
Init == x = 0
Next == UNCHANGED x
Spec == Init /\ [][Next]_x

Zero == <<0, 0, 0, 0>>
\* pawns never stand on the first or eighth rank
PcDom == { p \in (1..12) \X Sq : ~(Kind(p[1]) = P /\ Rank(p[2]) \in {0, 7}) }
EpDom == { q \in Sq : Rank(q) \in {2, 5} }
PcVals == { Tab.pc[p[1]][p[2]] : p \in PcDom }
EpVals == { Tab.ep[q] : q \in EpDom }
CrVals == { Tab.cr[r + 1] : r \in 0..15 }

Report(name, ok) == IF ok THEN TRUE ELSE PrintT(ToJson([bad |-> 1, why |-> name]))
TablesOK ==
  /\ Report("the empty board's key must be the base the other constants are relative to", Tab.cr[16] = Zero)
  /\ Report("a piece constant is zero", Zero \notin PcVals)
  /\ Report("two (piece, colour, square) constants coincide", Cardinality(PcVals) = Cardinality(PcDom))
  /\ Report("an en-passant constant is zero", Zero \notin EpVals)
  /\ Report("two en-passant constants coincide", Cardinality(EpVals) = Cardinality(EpDom))
  /\ Report("two castling-rights sets have the same constant", Cardinality(CrVals) = 16)
Sizes == <<Cardinality(PcDom), Cardinality(EpDom)>>
=============================================================================
