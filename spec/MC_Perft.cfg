SPECIFICATION Spec
CONSTANT MaxPly = 3
INVARIANT WellFormed
CHECK_DEADLOCK FALSE
