------------------------------ MODULE MC_Engine ------------------------------
(***************************************************************************)
(* Bounded exhaustive check of the engine mechanism (design level):        *)
(* from every seed in IOEnv.SEEDS, all sequences of                        *)
(*   Apply(m) for every legal m, followed by the caller's turn toggle,     *)
(*   Undo of the most recent move (toggle back, undo),                     *)
(*   Count / Uncount of the current position                               *)
(* up to MaxDepth applied moves and MaxReg registrations.                  *)
(*  KeyInvariant   the incrementally toggled key equals KeyOf(position)    *)
(*  AbsStep        the mechanism's successor is the rules' successor       *)
(*  UndoRestores   undo gives back exactly the state before the move       *)
(*  BoardInvariant C12's representation invariant                          *)
(*  ClockInvariant half-move clock = plies since last capture/pawn move    *)
(*  RegInvariant   a reported count = number of registrations of the       *)
(*                 current full position                                   *)
(***************************************************************************)
EXTENDS Engine, Json, IOUtils
CONSTANTS MaxDepth, MaxReg

Seeds == ndJsonDeserialize(IOEnv.SEEDS)
SeedPos(i) == [b |-> Seeds[i].b, turn |-> Seeds[i].turn, rights |-> Seeds[i].rights, ep |-> Seeds[i].ep]

VARIABLES st,     \* engine state
          und,    \* stack of [m, before] for the moves applied and not yet undone
          regs,   \* ghost: full positions registered and not yet unregistered, in order
          last    \* ghost: what the previous step was
vars == <<st, und, regs, last>>

FullKey(s) == PosKey(Abs(s))

Init == \E i \in 1..Len(Seeds) :
          /\ Consistent(SeedPos(i))
          /\ st = SetUp(SeedPos(i), 0, 1)
          /\ und = << >> /\ regs = << >> /\ last = "init"

Apply(m) ==
  /\ Len(und) < MaxDepth
  /\ st' = ToggleTurn(ApplyMove(st, m))
  /\ und' = Append(und, [m |-> m, before |-> st, nregs |-> Len(regs)])
  /\ UNCHANGED regs /\ last' = "apply"

\* callers unregister what they registered after a move before taking the move back
Undo ==
  /\ und # << >> /\ Len(regs) = Last(und).nregs
  /\ st' = UndoMove(ToggleTurn(st), Last(und).m)
  /\ und' = Front(und)
  /\ UNCHANGED regs /\ last' = "undo"

DoCount ==
  /\ Len(regs) < MaxReg
  /\ st' = Count(st) /\ regs' = Append(regs, FullKey(st))
  /\ UNCHANGED und /\ last' = "count"

DoUncount ==
  /\ regs # << >> /\ Last(regs) = FullKey(st)
  /\ (IF und = << >> THEN TRUE ELSE Len(regs) > Last(und).nregs)
  /\ st' = Uncount(st) /\ regs' = Front(regs)
  /\ UNCHANGED und /\ last' = "uncount"

Next == (\E m \in Legal(Abs(st)) : Apply(m)) \/ Undo \/ DoCount \/ DoUncount
Spec == Init /\ [][Next]_vars

Occurrences(seq, x) == Cardinality({ j \in 1..Len(seq) : seq[j] = x })

KeyInvariant == KeyInv(st)
BoardInvariant == BoardInv(Abs(st)) /\ StacksInv(st)
\* plies since the last irreversible move among the moves on the undo stack
RECURSIVE PliesSince(_)
PliesSince(u) == IF u = << >> THEN 0
                 ELSE IF Irreversible(Abs(Last(u).before), Last(u).m) THEN 0
                 ELSE 1 + PliesSince(Front(u))
ClockInvariant == Last(st.hmS) = PliesSince(und) /\ st.fm = 1 + Len(und)
RegInvariant == last = "count" => Last(st.seenS) = Occurrences(regs, FullKey(st))
UncountInvariant == last = "uncount" => CountOf(st, RepKey(st)) = Occurrences(regs, FullKey(st))

AbsStep == [][last' = "apply" => Abs(st') = Succ(Abs(st), Last(und').m)]_vars
UndoRestores == [][last' = "undo" => st' = Last(und).before]_vars
=============================================================================
