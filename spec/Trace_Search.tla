---------------------------- MODULE Trace_Search ----------------------------
(***************************************************************************)
(* B3 validator: the totally ordered sequence of shared-cache accesses of  *)
(* one parallel search of the REAL code, recorded under the token-passing  *)
(* scheduler (hook H2; only the token holder runs, so the order is the     *)
(* linearisation order), replayed against the cache actions of Search.tla: *)
(*   Begin(rootmax)   a new search starts, cache empty                     *)
(*   TaskBegin / TaskEnd(value)   a root-move task                         *)
(*   Probe            yield point before a cache read                      *)
(*   ProbeResult      the read: hit (value) or miss -- same atomic step    *)
(*   Store(value)     a cache write                                        *)
(*   End(score, task) the search's answer                                  *)
(* Checked (violations, "bad"):                                            *)
(*   - a read immediately follows its own yield point (atomicity of the    *)
(*     instrumentation)                                                    *)
(*   - the answer is selected from the task scores by the root rule: best  *)
(*     score for the side to move, returned move attains it                *)
(* Checked as well since the cache key carries depth and side (fix D3):    *)
(* "determinism relies on every key having one possible value" --          *)
(*   - a hit that the full key (position, remaining depth, side, window)   *)
(*     cannot explain: an entry written at one depth / side read at another*)
(*   - two different values stored for one full key                        *)
(* Checked as well: a hit must return an entry stored for the SAME position *)
(* (ghost variable owner: full key -> fingerprint of the storing position). *)
(***************************************************************************)
EXTENDS Integers, Sequences, FiniteSets, TLC, Json, IOUtils
Recs == ndJsonDeserialize(IOEnv.TRACE)
NRec == Len(Recs)
VARIABLES l, cache, scores, pending, rootmax      \* cache: full key -> <<value, fingerprint of the storing position>>
vars == <<l, cache, scores, pending, rootmax>>
Ev == Recs[l]
FullKey(e) == <<e.hash, e.depth, e.max, e.alpha, e.beta>>
Bad(why, x) == PrintT(ToJson([bad |-> l, why |-> why, x |-> x]))
Diag(why, x) == PrintT(ToJson([diag |-> l, why |-> why, x |-> x]))

Init == l = 1 /\ cache = << >> /\ scores = << >> /\ pending = << >> /\ rootmax = TRUE
Adv == l' = l + 1

\* (Ev.fresh = FALSE: the next search of a game with the SAME context -- the cache is kept)
TBegin == /\ Ev.ev = "Begin"
          /\ cache' = (IF "fresh" \in DOMAIN Ev /\ ~Ev.fresh THEN cache ELSE << >>) /\ scores' = << >> /\ pending' = << >> /\ rootmax' = Ev.rootmax /\ Adv
TTaskBegin == /\ Ev.ev = "TaskBegin" /\ UNCHANGED <<cache, scores, pending, rootmax>> /\ Adv
TTaskEnd == /\ Ev.ev = "TaskEnd"
            /\ scores' = [t \in DOMAIN scores \cup {Ev.task} |-> IF t = Ev.task THEN Ev.value ELSE scores[t]]
            /\ UNCHANGED <<cache, pending, rootmax>> /\ Adv
TProbe == /\ Ev.ev = "Probe"
          /\ pending' = <<Ev.task, FullKey(Ev)>>
          /\ UNCHANGED <<cache, scores, rootmax>> /\ Adv
TProbeResult ==
  /\ Ev.ev = "ProbeResult"
  /\ \E k \in {FullKey(Ev)} :
       /\ (IF pending = <<Ev.task, k>> THEN TRUE
           ELSE Bad("a cache read did not directly follow its own yield point", [task |-> Ev.task]))
       /\ (IF Ev.hit /\ (k \notin DOMAIN cache \/ cache[k][1] # Ev.value)
           THEN Bad("hit not explained by the full key: an entry stored for another remaining depth or side (or never stored) was read",
                     [depth |-> Ev.depth, max |-> Ev.max, value |-> Ev.value])
           ELSE TRUE)
       \* "determinism relies on every key having one possible value": the entry read must have been stored
       \* for THIS position (fingerprint of placement, rights, ep target computed independently of the key)
       /\ (IF Ev.hit /\ k \in DOMAIN cache /\ cache[k][2] # Ev.fp
           THEN Bad("a cache hit returned the entry stored for a different position", [depth |-> Ev.depth, max |-> Ev.max, value |-> Ev.value])
           ELSE TRUE)
  /\ pending' = << >> /\ UNCHANGED <<cache, scores, rootmax>> /\ Adv
TStore ==
  /\ Ev.ev = "Store"
  /\ \E k \in {FullKey(Ev)} :
       /\ (IF k \in DOMAIN cache /\ cache[k][1] # Ev.value
           THEN Bad("two different values stored for one (position, depth, side, window)", <<cache[k][1], Ev.value>>)
           ELSE TRUE)
       /\ cache' = [x \in DOMAIN cache \cup {k} |-> IF x = k THEN <<Ev.value, Ev.fp>> ELSE cache[x]]
  /\ UNCHANGED <<scores, pending, rootmax>> /\ Adv
TEnd ==
  /\ Ev.ev = "End"
  /\ (IF Ev.kind # "ok" THEN TRUE
      ELSE LET vals == { scores[t] : t \in DOMAIN scores }
               best == IF rootmax THEN CHOOSE v \in vals : \A w \in vals : v >= w
                       ELSE CHOOSE v \in vals : \A w \in vals : v <= w
           IN IF vals = {} THEN Bad("an answer without any finished task", 0)
              ELSE IF Ev.score # best THEN Bad("reported score is not the best task score for the side to move", <<Ev.score, best>>)
              ELSE IF Ev.task \notin DOMAIN scores \/ scores[Ev.task] # best THEN Bad("returned move does not attain the reported score", Ev.task)
              ELSE TRUE)
  /\ UNCHANGED <<cache, scores, pending, rootmax>> /\ Adv
Next == l <= NRec /\ (TBegin \/ TTaskBegin \/ TTaskEnd \/ TProbe \/ TProbeResult \/ TStore \/ TEnd)
Spec == Init /\ [][Next]_vars
AllConsumed == IF TLCGet("stats").diameter = NRec + 1 THEN TRUE
               ELSE PrintT(ToJson([stuck |-> TLCGet("stats").diameter])) /\ FALSE
=============================================================================
