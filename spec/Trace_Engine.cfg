SPECIFICATION Spec
CONSTANTS KeyMode = "retire"
 RegKeyMode = "position+side"
INVARIANTS ModelKeyInv
POSTCONDITION AllConsumed
CHECK_DEADLOCK FALSE
