------------------------------ MODULE Trace_Gen ------------------------------
(***************************************************************************)
(* C02 trace validator.  Each line of IOEnv.TRACE is one query put to a    *)
(* LONG-LIVED generator of the real code, logged with the 64-bit position  *)
(* key, the answer of the long-lived generator and the answer of a         *)
(* generator that cannot have a cached entry:                              *)
(*   {"ev":"Q", pos, key, side, what: "moves"|"attacks", long, fresh}      *)
(* The property's own sentence is the alarm: long # fresh.  The model      *)
(* replays the cache as a map (key, side, what) -> position first seen, so *)
(* that a stale answer is explained by naming the two distinct positions   *)
(* that shared a key.                                                      *)
(***************************************************************************)
EXTENDS Notation, Json, IOUtils
Recs == ndJsonDeserialize(IOEnv.TRACE)
NRec == Len(Recs)
VARIABLES l
vars == <<l>>
Ev == Recs[l]
PosOf(p) == [b |-> p.b, turn |-> p.turn, rights |-> p.rights, ep |-> p.ep]
SeqSet(s) == { s[j] : j \in 1..Len(s) }
Bad(why, x) == PrintT(ToJson([bad |-> l, why |-> why, x |-> x]))
Init == l = 1
\* (the cache is not carried as a state variable: a map that grows with the trace makes validation
\* quadratic; the earlier query that shared the key is looked up only when an answer is rejected)
EarlierUnderSameKey ==
  LET js == { j \in 1..(l - 1) : Recs[j].key = Ev.key /\ Recs[j].side = Ev.side /\ Recs[j].what = Ev.what /\ Recs[j].pos # Ev.pos }
  IN IF js = {} THEN <<>> ELSE PosKey(PosOf(Recs[CHOOSE j \in js : \A i \in js : j <= i].pos))
Step ==
  /\ l <= NRec
  /\ (IF SeqSet(Ev.long) = SeqSet(Ev.fresh) /\ Len(Ev.long) = Len(Ev.fresh) THEN TRUE
      ELSE Bad("a long-lived generator answered differently from a brand-new one",
               [what |-> Ev.what, sharedKeyWith |-> EarlierUnderSameKey, thisPosition |-> PosKey(PosOf(Ev.pos))]))
  /\ l' = l + 1
Spec == Init /\ [][Step]_vars
AllConsumed == IF TLCGet("stats").diameter = NRec + 1 THEN TRUE
               ELSE PrintT(ToJson([stuck |-> TLCGet("stats").diameter])) /\ FALSE
=============================================================================
