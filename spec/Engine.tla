------------------------------- MODULE Engine -------------------------------
(***************************************************************************)
(* Layer E: how the engine keeps a position.  An implementation-shaped     *)
(* model of src/board (Board, MoveInfo, PositionInfo) and of the four      *)
(* apply/undo pairs in src/chess_move: piece put/remove with incremental   *)
(* key toggling, the three per-move stacks (en-passant target, castling    *)
(* rights, half-move clock), the move counter, the repetition map and its  *)
(* stack of reported counts.  Undo pops the stacks and re-toggles the key  *)
(* exactly as the code does -- it is NOT a snapshot model -- so "undo      *)
(* restores everything" and "the key is a function of the position" are    *)
(* checked theorems of the mechanism (MC_Engine) and every recorded run of *)
(* the real code is compared with this mechanism step by step              *)
(* (Trace_Engine).                                                         *)
(*                                                                         *)
(* The position key is abstract here: a set of features, toggling =        *)
(* symmetric difference.  <<"pc", piece, sq>>, <<"cr", rights>>, <<"ep",   *)
(* sq>>.  Trace_Engine maps features to the real 64-bit constants.         *)
(***************************************************************************)
EXTENDS Notation

CONSTANTS KeyMode,     \* "retire": a new ep target retires the previous one's key (what C05 needs)
                       \* "accumulate": the previous target's key is left in (negative control)
          RegKeyMode   \* "position+side": repetition is counted per full position incl. side to move (C17)
                       \* "key": counted per position key, which ignores the side to move (negative control)

Last(s) == s[Len(s)]
Front(s) == SubSeq(s, 1, Len(s) - 1)
SymDiff(X, Y) == (X \ Y) \cup (Y \ X)
Tog(k, f) == SymDiff(k, {f})
TogEp(k, e) == IF e = 0 THEN k ELSE Tog(k, <<"ep", e>>)

(***************************************************************************)
(* State                                                                   *)
(***************************************************************************)
\* the full position a repetition claim talks about: placement, side to move, rights, ep target
RepKey(s) == IF RegKeyMode = "key" THEN s.key
             ELSE PosKey([b |-> s.b, turn |-> s.turn, rights |-> Last(s.crS), ep |-> Last(s.epS)])

\* Board::new(): empty board, white to move, stacks <<0>>, <<15>>, <<0>>, counter 1, key 0
EmptyEngine ==
  [ b |-> [s \in Sq |-> 0], turn |-> W, epS |-> <<0>>, crS |-> <<15>>, hmS |-> <<0>>, fm |-> 1,
    key |-> {}, cnt |-> << >>, seenS |-> <<1>>,
    hist |-> << >>,     \* Game.move_history
    gocc |-> << >> ]    \* ghost: the full positions that have arisen in the game (a bag as a function)

Abs(s) == [b |-> s.b, turn |-> s.turn, rights |-> Last(s.crS), ep |-> Last(s.epS)]

\* what the key of a position must be: one feature per piece, the rights set (relative to
\* the full set the empty board starts with), the ep target
KeyOf(p) ==
  SymDiff(SymDiff({ <<"pc", p.b[s], s>> : s \in { u \in Sq : p.b[u] # 0 } },
                  SymDiff({<<"cr", 15>>}, {<<"cr", p.rights>>})),
          IF p.ep = 0 THEN {} ELSE {<<"ep", p.ep>>})

(***************************************************************************)
(* Board editing primitives (src/board/mod.rs)                             *)
(***************************************************************************)
Put(s, sq, code) == [s EXCEPT !.b[sq] = code, !.key = Tog(s.key, <<"pc", code, sq>>)]
Remove(s, sq) == IF s.b[sq] = 0 THEN s
                 ELSE [s EXCEPT !.b[sq] = 0, !.key = Tog(s.key, <<"pc", s.b[sq], sq>>)]
SetTurn(s, c) == [s EXCEPT !.turn = c]
ToggleTurn(s) == [s EXCEPT !.turn = Opp(s.turn)]

PushEp(s, e) ==
  [s EXCEPT !.epS = Append(s.epS, e),
            !.key = IF KeyMode = "retire" THEN TogEp(TogEp(s.key, Last(s.epS)), e) ELSE TogEp(s.key, e)]
PopEp(s) ==
  LET old == Last(s.epS)  rest == Front(s.epS) IN
  [s EXCEPT !.epS = rest,
            !.key = IF KeyMode = "retire" THEN TogEp(TogEp(s.key, old), Last(rest)) ELSE TogEp(s.key, old)]

\* lose_castle_rights: push old minus lost, toggle old key and new key
LoseRights(s, lost) ==
  LET old == Last(s.crS)  new == RightsMinus(old, BitsOf(lost)) IN
  [s EXCEPT !.crS = Append(s.crS, new), !.key = Tog(Tog(s.key, <<"cr", old>>), <<"cr", new>>)]
PreserveRights(s) == [s EXCEPT !.crS = Append(s.crS, Last(s.crS))]
PopRights(s) ==
  LET old == Last(s.crS)  rest == Front(s.crS) IN
  [s EXCEPT !.crS = rest, !.key = Tog(Tog(s.key, <<"cr", old>>), <<"cr", Last(rest)>>)]

IncHm(s) == [s EXCEPT !.hmS = Append(s.hmS, Last(s.hmS) + 1)]
ResetHm(s) == [s EXCEPT !.hmS = Append(s.hmS, 0)]
PushHm(s, n) == [s EXCEPT !.hmS = Append(s.hmS, n)]
PopHm(s) == [s EXCEPT !.hmS = Front(s.hmS)]
IncFm(s) == [s EXCEPT !.fm = s.fm + 1]
DecFm(s) == [s EXCEPT !.fm = s.fm - 1]
SetFm(s, n) == [s EXCEPT !.fm = n]

(***************************************************************************)
(* The four move kinds (src/chess_move/*.rs), composed in the code's order *)
(***************************************************************************)
\* rights lost when this piece leaves this square / when this piece is captured on this square
LostIfMoved(code, sq) ==
  CASE code = Pc(R, W) /\ sq = 1 -> WQ
    [] code = Pc(R, W) /\ sq = 8 -> WK
    [] code = Pc(R, Bl) /\ sq = 57 -> BQ
    [] code = Pc(R, Bl) /\ sq = 64 -> BK
    [] code = Pc(K, W) /\ sq = 5 -> WK + WQ
    [] code = Pc(K, Bl) /\ sq = 61 -> BK + BQ
    [] OTHER -> 0
LostIfTaken(code, sq) ==
  CASE code = Pc(R, W) /\ sq = 1 -> WQ
    [] code = Pc(R, W) /\ sq = 8 -> WK
    [] code = Pc(R, Bl) /\ sq = 57 -> BQ
    [] code = Pc(R, Bl) /\ sq = 64 -> BK
    [] OTHER -> 0
Union2(x, y) == SumBits(BitsOf(x) \cup BitsOf(y))

EpTargetOf(code, f, t) ==
  IF code = Pc(P, W) /\ Rank(f) = 1 /\ Rank(t) = 3 THEN f + 8
  ELSE IF code = Pc(P, Bl) /\ Rank(f) = 6 /\ Rank(t) = 4 THEN f - 8
  ELSE 0

\* the half-move clock restarts after a capture or a pawn move (Laws 9.3), else counts on
ApplyStandard(s, m) ==
  LET piece == s.b[m.f]
      s1 == Remove(s, m.f)
      captured == s1.b[m.t]
      s2 == Remove(s1, m.t)
      lost == Union2(LostIfMoved(piece, m.f), LostIfTaken(captured, m.t))
      s3 == IF captured # 0 \/ Kind(piece) = P THEN ResetHm(s2) ELSE IncHm(s2)
      s4 == IncFm(s3)
      s5 == PushEp(s4, EpTargetOf(piece, m.f, m.t))
      s6 == LoseRights(s5, lost)
  IN Put(s6, m.t, piece)

UndoStandard(s, m) ==
  LET piece == s.b[m.t]
      s1 == Remove(s, m.t)
      s2 == IF m.c # 0 THEN Put(s1, m.t, Pc(m.c, Opp(Col(piece)))) ELSE s1
      s3 == PopRights(PopEp(DecFm(PopHm(s2))))
  IN Put(s3, m.f, piece)

ApplyPromotion(s, m) ==
  LET s1 == ApplyStandard(s, m)
      c == Col(s1.b[m.t])
  IN Put(Remove(s1, m.t), m.t, Pc(m.p, c))
UndoPromotion(s, m) ==
  LET c == Col(s.b[m.t])
      s1 == Put(Remove(s, m.t), m.t, Pc(P, c))
  IN UndoStandard(s1, m)

ApplyEnPassant(s, m) ==
  LET piece == s.b[m.f]
      c == Col(piece)
      capSq == IF c = W THEN m.t - 8 ELSE m.t + 8
      s1 == Remove(Remove(s, m.f), capSq)
      s2 == PreserveRights(PushEp(IncFm(ResetHm(s1)), 0))
  IN Put(s2, m.t, piece)
UndoEnPassant(s, m) ==
  LET piece == s.b[m.t]
      c == Col(piece)
      capSq == IF c = W THEN m.t - 8 ELSE m.t + 8
      s1 == Put(Remove(s, m.t), m.f, piece)
      s2 == PopRights(PopEp(DecFm(PopHm(s1))))
  IN Put(s2, capSq, Pc(P, Opp(c)))

CastleSquares(m) ==   \* <<rook from, rook to>>
  IF m.t > m.f THEN <<m.f + 3, m.f + 1>> ELSE <<m.f - 4, m.f - 1>>
ApplyCastle(s, m) ==
  LET c == IF Rank(m.f) = 0 THEN W ELSE Bl
      rk == CastleSquares(m)
      s1 == Put(Remove(s, m.f), m.t, Pc(K, c))
      s2 == Put(Remove(s1, rk[1]), rk[2], Pc(R, c))
      lost == IF c = W THEN WK + WQ ELSE BK + BQ
  IN LoseRights(PushEp(IncFm(IncHm(s2)), 0), lost)
UndoCastle(s, m) ==
  LET c == IF Rank(m.f) = 0 THEN W ELSE Bl
      rk == CastleSquares(m)
      s1 == Put(Remove(s, m.t), m.f, Pc(K, c))
      s2 == Put(Remove(s1, rk[2]), rk[1], Pc(R, c))
  IN PopRights(PopEp(PopHm(DecFm(s2))))

ApplyMove(s, m) ==
  CASE m.k = "S" -> ApplyStandard(s, m)
    [] m.k = "P" -> ApplyPromotion(s, m)
    [] m.k = "E" -> ApplyEnPassant(s, m)
    [] m.k = "C" -> ApplyCastle(s, m)
UndoMove(s, m) ==
  CASE m.k = "S" -> UndoStandard(s, m)
    [] m.k = "P" -> UndoPromotion(s, m)
    [] m.k = "E" -> UndoEnPassant(s, m)
    [] m.k = "C" -> UndoCastle(s, m)

(***************************************************************************)
(* Repetition accounting (PositionInfo)                                    *)
(***************************************************************************)
CountOf(s, k) == IF k \in DOMAIN s.cnt THEN s.cnt[k] ELSE 0
\* register the current position: its multiplicity after insertion is reported and remembered
Count(s) ==
  LET k == RepKey(s)  n == CountOf(s, k) + 1 IN
  [s EXCEPT !.cnt = [x \in DOMAIN s.cnt \cup {k} |-> IF x = k THEN n ELSE s.cnt[x]],
            !.seenS = Append(s.seenS, n)]
CanUncount(s) == CountOf(s, RepKey(s)) >= 1 /\ Len(s.seenS) > 1
Uncount(s) ==
  LET k == RepKey(s) IN
  \* (an entry that drops to zero is forgotten: the code keeps a zero entry, which no getter can tell apart)
  [s EXCEPT !.cnt = IF s.cnt[k] = 1 THEN [x \in DOMAIN s.cnt \ {k} |-> s.cnt[x]]
                    ELSE [s.cnt EXCEPT ![k] = @ - 1],
            !.seenS = Front(s.seenS)]

(***************************************************************************)
(* Game layer (src/game/game.rs): typed input, history, positions arising  *)
(***************************************************************************)
FullPosKey(s) == PosKey([b |-> s.b, turn |-> s.turn, rights |-> Last(s.crS), ep |-> Last(s.epS)])
Arises(s) ==
  LET k == FullPosKey(s)  n == (IF k \in DOMAIN s.gocc THEN s.gocc[k] ELSE 0) + 1 IN
  [s EXCEPT !.gocc = [x \in DOMAIN s.gocc \cup {k} |-> IF x = k THEN n ELSE s.gocc[x]]]
Occurred(s) == LET k == FullPosKey(s) IN IF k \in DOMAIN s.gocc THEN s.gocc[k] ELSE 0
\* an accepted input plays the move and records it
GamePlay(s, m) == [ApplyMove(s, m) EXCEPT !.hist = Append(s.hist, m)]
\* the caller hands the turn over: a new position of the game arises
GameToggle(s) == Arises(ToggleTurn(s))
GameStart(s) == Arises([s EXCEPT !.hist = << >>, !.gocc = << >>])

(***************************************************************************)
(* Observation: exactly what the public getters expose                     *)
(***************************************************************************)
Obs(s) == [ b |-> s.b, turn |-> s.turn, cr |-> Last(s.crS), ep |-> Last(s.epS),
            hm |-> Last(s.hmS), fm |-> s.fm, seen |-> Last(s.seenS) ]

\* the redundant summaries of the representation (C12), derived from the squares
Locate(s, code) == { q \in Sq : s.b[q] = code }
OccOf(s, c) == { q \in Sq : s.b[q] # 0 /\ Col(s.b[q]) = c }

\* a board set up through the editing API from a consistent position record
SetUp(p, hm, fm) ==
  LET s0 == EmptyEngine
      RECURSIVE PutAll(_, _)
      PutAll(s, q) == IF q > 64 THEN s ELSE PutAll(IF p.b[q] = 0 THEN s ELSE Put(s, q, p.b[q]), q + 1)
      s1 == SetTurn(PutAll(s0, 1), p.turn)
      s2 == LoseRights(s1, 15 - p.rights)
      s3 == IF p.ep = 0 THEN s2 ELSE PushEp(s2, p.ep)
      s4 == IF hm = 0 THEN s3 ELSE PushHm(s3, hm)
  IN SetFm(s4, fm)

\* invariants relating layer E to layer R
KeyInv(s) == s.key = KeyOf(Abs(s))
StacksInv(s) == Len(s.epS) >= 1 /\ Len(s.crS) >= 1 /\ Len(s.hmS) >= 1 /\ Len(s.seenS) >= 1
=============================================================================
