SPECIFICATION Spec
CONSTANTS KeyMode = "retire"
 RegKeyMode = "key"
 MaxDepth = 3
 MaxReg = 2
INVARIANTS KeyInvariant BoardInvariant ClockInvariant RegInvariant UncountInvariant
PROPERTIES AbsStep UndoRestores
CHECK_DEADLOCK FALSE
