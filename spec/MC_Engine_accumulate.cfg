SPECIFICATION Spec
CONSTANTS KeyMode = "accumulate"
 RegKeyMode = "position+side"
 MaxDepth = 3
 MaxReg = 2
INVARIANTS KeyInvariant BoardInvariant ClockInvariant RegInvariant UncountInvariant
PROPERTIES AbsStep UndoRestores
CHECK_DEADLOCK FALSE
