SPECIFICATION Spec
CONSTANTS KeyMode = "accumulate"
 RegKeyMode = "position+side"
 MaxDepth = 4
INVARIANT CacheCoherent
CHECK_DEADLOCK FALSE
