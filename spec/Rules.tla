------------------------------- MODULE Rules -------------------------------
(***************************************************************************)
(* Layer R: what the Laws of Chess say.  Pure, total, history-free.        *)
(*                                                                         *)
(* A position is a record [b, turn, rights, ep]:                           *)
(*   b      : Sq -> 0..12   0 empty, 1..6 white P N B R Q K, 7..12 black   *)
(*   turn   : 1 white, 0 black (the engine's Color discriminants)          *)
(*   rights : 0..15 with the engine's bit values WK=8, BK=4, WQ=2, BQ=1    *)
(*   ep     : 0 or the en-passant target square                            *)
(* A move is a record [k, f, t, p, c]: k in {"S","P","E","C"} (standard,   *)
(* promotion, en passant, castle), from, to, promotion kind (0 if none),   *)
(* captured kind (0 if none) -- the four ChessMove variants of the code.   *)
(***************************************************************************)
EXTENDS Geometry, TLC

P == 1  N == 2  B == 3  R == 4  Q == 5  K == 6
W == 1  Bl == 0
Pc(kind, c) == IF c = W THEN kind ELSE kind + 6
Kind(x) == IF x = 0 THEN 0 ELSE ((x - 1) % 6) + 1
Col(x) == IF x <= 6 THEN W ELSE Bl       \* only meaningful for x # 0
Opp(c) == 1 - c

Mv(k, f, t, p, c) == [k |-> k, f |-> f, t |-> t, p |-> p, c |-> c]

(***************************************************************************)
(* Attacks                                                                 *)
(***************************************************************************)
\* is square s attacked by a piece of colour c on board b?  (s = 0: no)
AttackedBy(b, s, c) ==
  /\ s # 0
  /\ \/ \E t \in PawnAttFrom[c][s] : b[t] = Pc(P, c)
     \/ \E t \in KnightT[s] : b[t] = Pc(N, c)
     \/ \E t \in KingT[s] : b[t] = Pc(K, c)
     \/ \E d \in 1..8 :
          LET t == FirstOcc(b, Rays[s][d], 1) IN
          /\ t # 0
          /\ \/ b[t] = Pc(Q, c)
             \/ (d <= 4 /\ b[t] = Pc(R, c))
             \/ (d >= 5 /\ b[t] = Pc(B, c))

\* all squares attacked by colour c
AttackMap(b, c) == { s \in Sq : AttackedBy(b, s, c) }

\* squares attacked by the single piece standing on s
PieceAttacks(b, s) ==
  LET x == Kind(b[s])  c == Col(b[s])
      slide(ds) == UNION { RayReach(b, Rays[s][d], 1) : d \in ds }
  IN CASE x = P -> PawnAtt[c][s]
       [] x = N -> KnightT[s]
       [] x = K -> KingT[s]
       [] x = B -> slide(DiagDirs)
       [] x = R -> slide(OrthoDirs)
       [] x = Q -> slide(1..8)
       [] OTHER -> {}

\* total: 0 when the colour has no king (or the least such square if several)
KingSq(b, c) ==
  LET S == { s \in Sq : b[s] = Pc(K, c) }
  IN IF S = {} THEN 0 ELSE CHOOSE s \in S : \A u \in S : s <= u

(***************************************************************************)
(* Castling rights                                                         *)
(***************************************************************************)
WK == 8  BK == 4  WQ == 2  BQ == 1
HasRight(rights, bit) == (rights \div bit) % 2 = 1
BitsOf(x) == { k \in {1, 2, 4, 8} : HasRight(x, k) }
SumBits(S) == (IF 1 \in S THEN 1 ELSE 0) + (IF 2 \in S THEN 2 ELSE 0)
            + (IF 4 \in S THEN 4 ELSE 0) + (IF 8 \in S THEN 8 ELSE 0)
RightsMinus(rights, lost) == SumBits(BitsOf(rights) \ lost)

\* home squares of the king and rook a right depends on
KingHome(bit) == IF bit \in {WK, WQ} THEN 5 ELSE 61
RookHome(bit) == CASE bit = WK -> 8 [] bit = WQ -> 1 [] bit = BK -> 64 [] bit = BQ -> 57
RightColour(bit) == IF bit \in {WK, WQ} THEN W ELSE Bl

\* Laws 3.8.2.1: the right is lost once the king or that rook has moved; a rook that
\* has been captured can no longer castle.  On the board this is: any move that
\* leaves from, or arrives on, a home square the right depends on.
RightsLostBy(m) == { bit \in {1, 2, 4, 8} :
                       m.f = KingHome(bit) \/ m.f = RookHome(bit) \/ m.t = RookHome(bit) }

(***************************************************************************)
(* Pseudo-legal moves                                                      *)
(***************************************************************************)
PieceMoves(b, s, c) ==
  LET x == Kind(b[s])
      tgt(T) == { t \in T : b[t] = 0 \/ Col(b[t]) # c }
      slide(ds) == UNION { RayReach(b, Rays[s][d], 1) : d \in ds }
      T == CASE x = N -> KnightT[s]
             [] x = K -> KingT[s]
             [] x = B -> slide(DiagDirs)
             [] x = R -> slide(OrthoDirs)
             [] x = Q -> slide(1..8)
             [] OTHER -> {}
  IN { Mv("S", s, t, 0, Kind(b[t])) : t \in tgt(T) }

PromoKinds == {Q, R, B, N}

PawnMoves(b, s, c, ep) ==
  LET dr == IF c = W THEN 1 ELSE -1
      f == File(s)  r == Rank(s)
      startR == IF c = W THEN 1 ELSE 6
      lastR == IF c = W THEN 7 ELSE 0
      hasOne == OnBoard(f, r + dr)
      one == IF hasOne THEN SqOf(f, r + dr) ELSE 0
      two == IF r = startR THEN SqOf(f, r + 2 * dr) ELSE 0
      pushes == IF ~hasOne \/ b[one] # 0 THEN {}
                ELSE {one} \cup (IF two # 0 /\ b[two] = 0 THEN {two} ELSE {})
      caps == { t \in PawnAtt[c][s] : b[t] # 0 /\ Col(b[t]) # c }
      expand(t) == IF Rank(t) = lastR
                   THEN { Mv("P", s, t, k, Kind(b[t])) : k \in PromoKinds }
                   ELSE { Mv("S", s, t, 0, Kind(b[t])) }
  IN UNION { expand(t) : t \in pushes \cup caps }
     \cup (IF ep # 0 /\ ep \in PawnAtt[c][s] THEN { Mv("E", s, ep, 0, P) } ELSE {})

CastleMoves(pos) ==
  LET c == pos.turn  b == pos.b  o == Opp(c)
      e == IF c = W THEN 5 ELSE 61
      ksBit == IF c = W THEN WK ELSE BK
      qsBit == IF c = W THEN WQ ELSE BQ
  IN IF b[e] # Pc(K, c) \/ AttackedBy(b, e, o) THEN {}
     ELSE (IF /\ HasRight(pos.rights, ksBit) /\ b[e + 3] = Pc(R, c)
              /\ b[e + 1] = 0 /\ b[e + 2] = 0
              /\ ~AttackedBy(b, e + 1, o)
           THEN { Mv("C", e, e + 2, 0, 0) } ELSE {})
       \cup
          (IF /\ HasRight(pos.rights, qsBit) /\ b[e - 4] = Pc(R, c)
              /\ b[e - 1] = 0 /\ b[e - 2] = 0 /\ b[e - 3] = 0
              /\ ~AttackedBy(b, e - 1, o)
           THEN { Mv("C", e, e - 2, 0, 0) } ELSE {})
\* (the destination square "not attacked" condition is the general king-safety filter below)

Pseudo(pos) ==
  LET c == pos.turn  b == pos.b IN
  UNION { IF Kind(b[s]) = P THEN PawnMoves(b, s, c, pos.ep) ELSE PieceMoves(b, s, c)
          : s \in { u \in Sq : b[u] # 0 /\ Col(b[u]) = c } }
  \cup CastleMoves(pos)

(***************************************************************************)
(* Successor                                                               *)
(***************************************************************************)
SuccBoard(b, c, m) ==
  CASE m.k = "S" -> [b EXCEPT ![m.f] = 0, ![m.t] = b[m.f]]
    [] m.k = "P" -> [b EXCEPT ![m.f] = 0, ![m.t] = Pc(m.p, c)]
    [] m.k = "E" -> [b EXCEPT ![m.f] = 0, ![m.t] = b[m.f],
                              ![IF c = W THEN m.t - 8 ELSE m.t + 8] = 0]
    [] m.k = "C" -> IF m.t > m.f
                    THEN [b EXCEPT ![m.f] = 0, ![m.t] = b[m.f], ![m.f + 3] = 0, ![m.f + 1] = b[m.f + 3]]
                    ELSE [b EXCEPT ![m.f] = 0, ![m.t] = b[m.f], ![m.f - 4] = 0, ![m.f - 1] = b[m.f - 4]]

IsDoubleStep(b, m) == m.k = "S" /\ Kind(b[m.f]) = P /\ (m.t - m.f = 16 \/ m.f - m.t = 16)

\* the position after the move with the side to move left alone (what ChessMove::apply does)
SuccNoFlip(pos, m) ==
  [ b |-> SuccBoard(pos.b, pos.turn, m),
    turn |-> pos.turn,
    rights |-> RightsMinus(pos.rights, RightsLostBy(m)),
    ep |-> IF IsDoubleStep(pos.b, m) THEN (m.f + m.t) \div 2 ELSE 0 ]

\* the position after the move with the other side to move (what a game does)
Succ(pos, m) == [SuccNoFlip(pos, m) EXCEPT !.turn = Opp(pos.turn)]

Legal(pos) ==
  { m \in Pseudo(pos) :
      LET nb == SuccBoard(pos.b, pos.turn, m) IN
      ~AttackedBy(nb, KingSq(nb, pos.turn), Opp(pos.turn)) }

InCheckOf(pos, c) == AttackedBy(pos.b, KingSq(pos.b, c), Opp(c))
InCheck(pos) == InCheckOf(pos, pos.turn)

Verdict(pos, L) == IF L # {} THEN "none" ELSE IF InCheck(pos) THEN "checkmate" ELSE "stalemate"

\* capture or pawn move: what resets the fifty-move count (Laws 9.3)
Irreversible(pos, m) == m.c # 0 \/ m.k \in {"E", "P"} \/ Kind(pos.b[m.f]) = P

\* effect of a move on the opponent: "#" mate, "+" check, "" none
Effect(pos, m) ==
  LET np == Succ(pos, m) IN
  IF InCheck(np) THEN (IF Legal(np) = {} THEN "#" ELSE "+") ELSE ""

(***************************************************************************)
(* Well-formedness                                                         *)
(***************************************************************************)
KingsOK(b) == /\ Cardinality({ s \in Sq : b[s] = Pc(K, W) }) = 1
              /\ Cardinality({ s \in Sq : b[s] = Pc(K, Bl) }) = 1
PawnsOK(b) == \A s \in (1..8) \cup (57..64) : Kind(b[s]) # P
RightsOK(b, rights) ==
  \A bit \in BitsOf(rights) :
     /\ b[KingHome(bit)] = Pc(K, RightColour(bit))
     /\ b[RookHome(bit)] = Pc(R, RightColour(bit))
\* ep target on the third/sixth rank, the double-stepped pawn in front of it, the
\* target itself and the square behind it (the pawn's origin) empty
EpShapeOK(b, ep) ==
  \/ ep = 0
  \/ /\ Rank(ep) = 2 /\ b[ep + 8] = Pc(P, W) /\ b[ep] = 0 /\ b[ep - 8] = 0
  \/ /\ Rank(ep) = 5 /\ b[ep - 8] = Pc(P, Bl) /\ b[ep] = 0 /\ b[ep + 8] = 0

\* C12: the representation invariant on the abstract position (summaries are compared
\* with the per-square contents by the trace validator, see Trace_Engine)
BoardInv(pos) == KingsOK(pos.b) /\ PawnsOK(pos.b) /\ RightsOK(pos.b, pos.rights) /\ EpShapeOK(pos.b, pos.ep)

\* C01: a consistent set-up: additionally the ep target belongs to the side that has
\* just moved, and the side not to move is not in check
Consistent(pos) ==
  /\ BoardInv(pos)
  /\ pos.ep # 0 => Rank(pos.ep) = (IF pos.turn = W THEN 5 ELSE 2)
  /\ ~InCheckOf(pos, Opp(pos.turn))

(***************************************************************************)
(* Colour mirror (C18): 180-degree rotation with colours swapped           *)
(***************************************************************************)
SwapPc(x) == IF x = 0 THEN 0 ELSE IF x <= 6 THEN x + 6 ELSE x - 6
Mirror(pos) == [ b |-> [s \in Sq |-> SwapPc(pos.b[65 - s])],
                 turn |-> Opp(pos.turn), rights |-> 0, ep |-> 0 ]

\* the same with the en-passant target carried along (castling rights do not survive a rotation of the board)
MirrorEp(pos) == [Mirror(pos) EXCEPT !.ep = IF pos.ep = 0 THEN 0 ELSE 65 - pos.ep]

StartBoard ==
  << 4,2,3,5,6,3,2,4,  1,1,1,1,1,1,1,1,
     0,0,0,0,0,0,0,0,  0,0,0,0,0,0,0,0,  0,0,0,0,0,0,0,0,  0,0,0,0,0,0,0,0,
     7,7,7,7,7,7,7,7,  10,8,9,11,12,9,8,10 >>
StartPos == [b |-> StartBoard, turn |-> W, rights |-> 15, ep |-> 0]
=============================================================================
