------------------------------ MODULE MC_Search ------------------------------
EXTENDS Search
\* nodes: 0 root(max); 1 = A (min); 2 = C = position X (min); 3 = A1 (max); 4 = X' (min, same key as 2); 5,6 leaves under X
\* plus 7,8 leaves under X' (never searched at depth 0, but same position => same children)
ChildrenC == [n \in 0..8 |-> CASE n = 0 -> <<1, 2>> [] n = 1 -> <<3>> [] n = 3 -> <<4>> [] n = 2 -> <<5, 6>> [] n = 4 -> <<7, 8>> [] OTHER -> << >>]
PosKeyC == [n \in 0..8 |-> CASE n = 4 -> 2 [] n = 7 -> 5 [] n = 8 -> 6 [] OTHER -> n]
StaticC == [n \in 0..8 |-> CASE n = 2 -> 5 [] n = 4 -> 5 [] n = 5 -> 1 [] n = 7 -> 1 [] n = 6 -> 3 [] n = 8 -> 3 [] OTHER -> 0]
MateC == [n \in 0..8 |-> 0]
=============================================================================
