------------------------------- MODULE Search -------------------------------
(* Parallel root-split alpha-beta with one shared result cache, shaped like
   src/alpha_beta_searcher/mod.rs.  The game is abstract data. *)
EXTENDS Integers, Sequences, FiniteSets, TLC

CONSTANTS
  Children,   \* [Node -> Seq(Node)]  ordered as after sort_chess_moves
  PosKey,     \* [Node -> key]        the 64-bit position hash (no side, no depth)
  Static,     \* [Node -> Int]        evaluate::score at remaining depth 0
  MateBonus,  \* [Node -> Int]        added per remaining depth when the node has no moves
  Root, RootMax, Depth,
  Root2, Root2Max,   \* a second search with the SAME context (cache kept) after the first has finished --
                     \* "one context reused across the successive searches of a game"; Root2 outside the node set (e.g. 9999): none
  KeyMode     \* "full" = (hash, depth, side, alpha, beta); "window" = (hash, alpha, beta); "noside"; "nodepth"

MIN == -99
MAX == 99
VARIABLES cache, stack, ret, score, pc, ph
vars == <<cache, stack, ret, score, pc, ph>>
CurRoot == IF ph = 1 THEN Root ELSE Root2
CurMax == IF ph = 1 THEN RootMax ELSE Root2Max
TasksOf(r) == 1..Len(Children[r])
Tasks == TasksOf(CurRoot)

Max2(a, b) == IF a >= b THEN a ELSE b
Min2(a, b) == IF a <= b THEN a ELSE b

Leaf(n, d) == IF Children[n] = << >> THEN Static[n] + (IF Static[n] > 0 THEN 1 ELSE IF Static[n] < 0 THEN -1 ELSE 0) * MateBonus[n] * d
              ELSE Static[n]

RECURSIVE Minimax(_, _, _)
Minimax(n, d, mx) ==
  IF d = 0 \/ Children[n] = << >> THEN Leaf(n, d)
  ELSE LET vals == { Minimax(Children[n][i], d - 1, ~mx) : i \in 1..Len(Children[n]) }
       IN IF mx THEN CHOOSE v \in vals : \A w \in vals : v >= w
          ELSE CHOOSE v \in vals : \A w \in vals : v <= w

CKey(f) == CASE KeyMode = "full" -> <<PosKey[f.n], f.d, f.mx, f.a, f.b>>
             [] KeyMode = "noside" -> <<PosKey[f.n], f.d, f.a, f.b>>      \* negative control: side to move dropped
             [] KeyMode = "nodepth" -> <<PosKey[f.n], f.mx, f.a, f.b>>    \* negative control: remaining depth dropped
             [] OTHER -> <<PosKey[f.n], f.a, f.b>>                        \* "window": the pinned tree's key

Frame(n, d, a, b, mx) == [n |-> n, d |-> d, a |-> a, b |-> b, mx |-> mx,
                          v |-> IF mx THEN MIN ELSE MAX, i |-> 0, a0 |-> a, b0 |-> b]

Init ==
  /\ ph = 1
  /\ cache = << >>          \* function with empty domain
  /\ stack = [t \in TasksOf(Root) |-> << Frame(Children[Root][t], Depth - 1, MIN, MAX, ~RootMax) >>]
  /\ ret = [t \in TasksOf(Root) |-> MIN]
  /\ score = [t \in TasksOf(Root) |-> MIN]
  /\ pc = [t \in TasksOf(Root) |-> "call"]

\* deliver value val to the parent frame of task t (stack s already popped)
Deliver(t, s, val, newCache) ==
  IF s = << >> THEN
    /\ score' = [score EXCEPT ![t] = val]
    /\ pc' = [pc EXCEPT ![t] = "done"]
    /\ stack' = [stack EXCEPT ![t] = s]
    /\ cache' = newCache
    /\ UNCHANGED <<ret, ph>>
  ELSE
    LET p == s[Len(s)]
        v2 == IF p.mx THEN Max2(p.v, val) ELSE Min2(p.v, val)
        a2 == IF p.mx THEN Max2(p.a, v2) ELSE p.a
        b2 == IF p.mx THEN p.b ELSE Min2(p.b, v2)
        i2 == p.i + 1
        p2 == [p EXCEPT !.v = v2, !.a = a2, !.b = b2, !.i = i2]
        cut == b2 <= a2
        more == i2 < Len(Children[p.n])
        base == [k \in 1..(Len(s) - 1) |-> s[k]]
    IN IF cut \/ ~more
       THEN /\ stack' = [stack EXCEPT ![t] = Append(base, p2)]
            /\ pc' = [pc EXCEPT ![t] = "store"]
            /\ cache' = newCache
            /\ UNCHANGED <<ret, score, ph>>
       ELSE /\ stack' = [stack EXCEPT ![t] =
                 Append(Append(base, p2), Frame(Children[p.n][i2 + 1], p.d - 1, a2, b2, ~p.mx))]
            /\ pc' = [pc EXCEPT ![t] = "call"]
            /\ cache' = newCache
            /\ UNCHANGED <<ret, score, ph>>

Pop(s) == [k \in 1..(Len(s) - 1) |-> s[k]]

\* one shared read: check_cache at function entry
Probe(t) ==
  /\ pc[t] = "call"
  /\ LET s == stack[t]  f == s[Len(s)]  k == CKey(f) IN
     IF k \in DOMAIN cache
     THEN Deliver(t, Pop(s), cache[k], cache)
     ELSE IF f.d = 0 \/ Children[f.n] = << >>
          THEN /\ stack' = [stack EXCEPT ![t] = Append(Pop(s), [f EXCEPT !.v = Leaf(f.n, f.d)])]
               /\ pc' = [pc EXCEPT ![t] = "store"]
               /\ UNCHANGED <<cache, ret, score, ph>>
          ELSE /\ stack' = [stack EXCEPT ![t] = Append(s, Frame(Children[f.n][1], f.d - 1, f.a, f.b, ~f.mx))]
               /\ UNCHANGED <<cache, ret, score, pc, ph>>

\* one shared write: set_cache at function exit (key uses the ORIGINAL window)
Store(t) ==
  /\ pc[t] = "store"
  /\ LET s == stack[t]  f == s[Len(s)]
         k == CKey([f EXCEPT !.a = f.a0, !.b = f.b0])
         nc == [x \in DOMAIN cache \cup {k} |-> IF x = k THEN f.v ELSE cache[x]]
     IN Deliver(t, Pop(s), f.v, nc)

AllDone == \A t \in Tasks : pc[t] = "done"
HasSecond == Root2 \in DOMAIN Children
Finished == AllDone /\ (ph = 2 \/ ~HasSecond)
\* the same context (its cache) serves the next search of the game
NextSearch ==
  /\ AllDone /\ ph = 1 /\ HasSecond
  /\ ph' = 2 /\ cache' = cache
  /\ stack' = [t \in TasksOf(Root2) |-> << Frame(Children[Root2][t], Depth - 1, MIN, MAX, ~Root2Max) >>]
  /\ ret' = [t \in TasksOf(Root2) |-> MIN]
  /\ score' = [t \in TasksOf(Root2) |-> MIN]
  /\ pc' = [t \in TasksOf(Root2) |-> "call"]
Next == (\E t \in Tasks : Probe(t) \/ Store(t)) \/ NextSearch \/ (Finished /\ UNCHANGED vars)
Spec == Init /\ [][Next]_vars /\ WF_vars(Next)

Best == IF CurMax THEN CHOOSE v \in {score[t] : t \in Tasks} : \A t \in Tasks : v >= score[t]
        ELSE CHOOSE v \in {score[t] : t \in Tasks} : \A t \in Tasks : v <= score[t]
\* engine tie-break: maximizing -> first best in candidate order; minimizing -> last best
Chosen == IF CurMax THEN CHOOSE t \in Tasks : score[t] = Best /\ \A u \in Tasks : score[u] = Best => t <= u
          ELSE CHOOSE t \in Tasks : score[t] = Best /\ \A u \in Tasks : score[u] = Best => t >= u

ExactValue == AllDone => Best = Minimax(CurRoot, Depth, CurMax)
ExactTasks == \A t \in Tasks : pc[t] = "done" => score[t] = Minimax(Children[CurRoot][t], Depth - 1, ~CurMax)
Terminates == <>Finished
=============================================================================
