SPECIFICATION Spec
INVARIANT TablesOK
CHECK_DEADLOCK FALSE
