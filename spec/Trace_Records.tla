--------------------------- MODULE Trace_Records ---------------------------
(***************************************************************************)
(* B2 validator for history-free records: each NDJSON line in IOEnv.TRACE  *)
(* is a position together with answers the REAL code gave for it; TLC      *)
(* checks every answer against layer R.  Records become TLC states through *)
(* a two-level fan-out (chunk, record) so that several workers share them. *)
(* A record that does not conform is printed (one JSON line, "bad") and    *)
(* counted by the driver; nothing is accepted silently: the driver also    *)
(* requires the number of distinct states to be 1 + chunks + records.      *)
(*                                                                         *)
(* record types (field t):                                                 *)
(*  "moves"   pos, mv (list)            mv as a set = Legal(pos), no dups  *)
(*  "succ"    pos, m, after             m legal, after = SuccNoFlip(pos,m) *)
(*  "verdict" pos, chk, ending, effs    check / mate / stalemate / effects *)
(*  "san"     pos, labels [[m, text]]   text = SAN, labels distinct        *)
(*  "uci"     pos, texts [[m, text, parsed]]                               *)
(*  "mirror"  pos, mir, a, b            mir = Mirror(pos), a = -b          *)
(*  "scoremirror" pos, mir, a, b        leaf evaluation of pos and MirrorEp *)
(*  "attack"  kind, sq, occ, att        att = SliderAttacks(kind, sq, occ) *)
(*  "leaper"  kind, sq, att             knight / king tables               *)
(*  "attackmap" b, white, att           whole attack map of a crowded board *)
(*  "board"   obs, sum                  transient board: C12 invariants    *)
(*  "boardkey" obs, parts               transient board: key = XOR of parts *)
(*  "matescore" pos, kind, scores, mm   mate / stalemate scores by depth   *)
(*  "score"   pos, hm, scores, static, mm   evaluate::score composition   *)
(*  "render"  pos, rows                 Display of the board               *)
(***************************************************************************)
EXTENDS Notation, Json, IOUtils, Bitwise

Recs == ndJsonDeserialize(IOEnv.TRACE)
NRec == Len(Recs)
Chunk == 64
VARIABLES lvl, i
vars == <<lvl, i>>
Init == lvl = 0 /\ i = 0
Next == \/ lvl = 0 /\ lvl' = 1 /\ i' \in 0..((NRec - 1) \div Chunk)
        \/ lvl = 1 /\ lvl' = 2 /\ i' \in { j \in (i * Chunk + 1)..((i + 1) * Chunk) : j <= NRec }
Spec == Init /\ [][Next]_vars

PosOf(p) == [b |-> p.b, turn |-> p.turn, rights |-> p.rights, ep |-> p.ep]
MvOf(m) == Mv(m.k, m.f, m.t, m.p, m.c)
SeqSet(s) == { s[j] : j \in 1..Len(s) }

Bad(why, x) == PrintT(ToJson([bad |-> i, why |-> why, x |-> x]))
Skip(why) == PrintT(ToJson([skip |-> i, why |-> why]))

CheckMoves(r) ==
  LET pos == PosOf(r.pos)
      got == { MvOf(r.mv[j]) : j \in 1..Len(r.mv) }
      L == Legal(pos)
  IN IF ~Consistent(pos) THEN Skip("inconsistent position")
     ELSE /\ (got = L \/ Bad("move set differs from Legal(pos)", [extra |-> got \ L, missing |-> L \ got]))
          /\ (Cardinality(got) = Len(r.mv) \/ Bad("duplicate moves", Len(r.mv)))

CheckSucc(r) ==
  LET pos == PosOf(r.pos)  m == MvOf(r.m)
  IN IF ~Consistent(pos) THEN Skip("inconsistent position")
     ELSE IF m \notin Legal(pos) THEN Bad("applied move is not legal", m)
     ELSE (PosOf(r.after) = SuccNoFlip(pos, m) /\ r.ok)
          \/ Bad("successor differs", [want |-> SuccNoFlip(pos, m), ok |-> r.ok])

CheckVerdict(r) ==
  LET pos == PosOf(r.pos)
      L == Legal(pos)
      v == Verdict(pos, L)
  IN IF ~Consistent(pos) THEN Skip("inconsistent position")
     ELSE /\ (r.chk = InCheck(pos) \/ Bad("in-check verdict differs", InCheck(pos)))
          \* a draw by move count / repetition pre-empts the verdict in the code; that
          \* precedence belongs to C16 / C17 and is not judged here
          /\ (r.ending = v \/ (r.ending = "draw" /\ Skip("draw pre-empts the verdict"))
                 \/ Bad("game-ending verdict differs", <<r.ending, v>>))
          /\ \A j \in 1..Len(r.effs) :
               LET m == MvOf(r.effs[j][1]) IN
               m \notin L \/ r.effs[j][2] = Effect(pos, m)
                 \/ Bad("move annotation differs", <<m, r.effs[j][2], Effect(pos, m)>>)

CheckSan(r) ==
  LET pos == PosOf(r.pos)
      L == Legal(pos)
  IN IF ~Consistent(pos) THEN Skip("inconsistent position")
     ELSE /\ \A j \in 1..Len(r.labels) :
               LET m == MvOf(r.labels[j][1]) IN
               m \notin L \/ r.labels[j][2] = SAN(pos, m, L)
                 \/ Bad("label differs from SAN", <<m, r.labels[j][2], SAN(pos, m, L)>>)
          /\ (Cardinality({ r.labels[j][2] : j \in 1..Len(r.labels) }) = Len(r.labels)
                 \/ Bad("two legal moves share a label", Len(r.labels)))
          /\ ({ MvOf(r.labels[j][1]) : j \in 1..Len(r.labels) } = L
                 \/ Bad("labelled moves are not the legal moves", Cardinality(L)))

CheckUci(r) ==
  LET pos == PosOf(r.pos)
      L == Legal(pos)
  IN IF ~Consistent(pos) THEN Skip("inconsistent position")
     ELSE /\ \A j \in 1..Len(r.texts) :
               LET m == MvOf(r.texts[j][1]) IN
               /\ (r.texts[j][2] = UCI(m) \/ Bad("UCI text differs", <<m, r.texts[j][2], UCI(m)>>))
               /\ (MvOf(r.texts[j][3]) = m \/ Bad("bridge parser does not reconstruct the move", <<m, r.texts[j][3]>>))
          /\ (Cardinality({ r.texts[j][2] : j \in 1..Len(r.texts) }) = Len(r.texts)
                 \/ Bad("two legal moves share a UCI string", Len(r.texts)))

Abs1(x) == IF x < 0 THEN 0 - x ELSE x
CheckMirror(r) ==
  LET pos == PosOf(r.pos) IN
  /\ (PosOf(r.mir).b = Mirror(pos).b \/ Bad("harness mirrored the position wrongly", 0))
  /\ (r.a = 0 - r.b \/ Bad("static score is not colour-symmetric", <<r.a, r.b>>))
  \* mm = the smallest magnitude of any mate score the code produced in this run (see "matescore")
  /\ ("mm" \notin DOMAIN r \/ (Abs1(r.a) < r.mm /\ Abs1(r.b) < r.mm)
        \/ Bad("static score not strictly below every mate score", <<r.a, r.b, r.mm>>))

\* C05 on a board observed between a move and its undo inside generation / search (hook H5): the logged key is
\* the XOR of the listed constants -- the base, one per man on the board, the rights set's, the target's (read
\* black-box by the recorder exactly as Trace_Tables reads them; 64-bit values as four 16-bit limbs)
X4(a, b) == << a[1] ^^ b[1], a[2] ^^ b[2], a[3] ^^ b[3], a[4] ^^ b[4] >>
RECURSIVE FoldX(_, _, _)
FoldX(s, j, acc) == IF j > Len(s) THEN acc ELSE FoldX(s, j + 1, X4(acc, s[j]))
CheckBoardKey(r) ==
  LET o == r.obs
      men == Cardinality({ q \in Sq : o.b[q] # 0 })
      want == 2 + men + (IF o.ep = 0 THEN 0 ELSE 1)
  IN /\ (Len(r.parts) = want \/ Bad("harness listed the wrong number of key constants", <<Len(r.parts), want>>))
     /\ (FoldX(r.parts, 1, <<0, 0, 0, 0>>) = o.key
          \/ Bad("the key of a board seen between a move and its undo is not the XOR of the constants of its position", [cr |-> o.cr, ep |-> o.ep, turn |-> o.turn]))

\* C18 on the leaf evaluation itself (evaluate::score: terminal verdicts included): a position without castling
\* rights and its colour-swapped, rotated twin (en-passant target carried along) score exactly opposite
CheckScoreMirror(r) ==
  LET pos == PosOf(r.pos) IN
  IF ~Consistent(pos) \/ pos.rights # 0 THEN Skip("inconsistent position or castling rights held")
  ELSE /\ (PosOf(r.mir) = MirrorEp(pos) \/ Bad("harness mirrored the position wrongly", 0))
       \* (mate scores are i16::MAX/2 + d for White and i16::MIN/2 - d for Black: opposite in sign, one apart in
       \* magnitude -- the property demands exact negation of the STATIC score, so mated positions are held to the sign only)
       /\ (IF Verdict(pos, Legal(pos)) = "checkmate"
           THEN (\A d \in 1..Len(r.a) : (r.a[d] > 0 /\ r.b[d] < 0) \/ (r.a[d] < 0 /\ r.b[d] > 0)) \/ Bad("a mated position and its twin do not score with opposite signs", <<r.a, r.b>>)
           ELSE (\A d \in 1..Len(r.a) : r.a[d] = 0 - r.b[d]) \/ Bad("leaf evaluation is not colour-symmetric", <<r.a, r.b>>))

\* C18: scores of a checkmated position for remaining depth 0..255 (index d+1), side = who is mated;
\* a mate with more depth remaining is strictly better for the mating side; stalemate scores 0
CheckMateScore(r) ==
  LET pos == PosOf(r.pos)
      L == Legal(pos)
      sc == r.scores
      sign == IF pos.turn = W THEN -1 ELSE 1     \* white mated: negative scores
  IN IF ~Consistent(pos) THEN Skip("inconsistent position")
     ELSE IF r.kind = "stalemate"
     THEN (Verdict(pos, L) = "stalemate" \/ Bad("harness: not a stalemate", 0))
          /\ ((\A d \in 1..Len(sc) : sc[d] = 0) \/ Bad("stalemate does not score zero", sc))
     ELSE /\ (Verdict(pos, L) = "checkmate" \/ Bad("harness: not a checkmate", 0))
          /\ ((\A d \in 1..Len(sc) : sign * sc[d] > 0) \/ Bad("mate score has the wrong sign", sign))
          /\ ((\A d \in 1..(Len(sc) - 1) : sign * sc[d + 1] > sign * sc[d])
                \/ Bad("a mate with more depth remaining does not score strictly better for the mating side", 0))
          /\ ((\A d \in 1..Len(sc) : Abs1(sc[d]) >= r.mm) \/ Bad("harness: mm is not the minimum mate magnitude", r.mm))

CheckAttack(r) ==
  LET want == SliderAttacks(r.kind, r.sq, SeqSet(r.occ)) IN
  SeqSet(r.att) = want \/ Bad("slider attack set differs from ray walking", [got |-> SeqSet(r.att), want |-> want])

CheckLeaper(r) ==
  LET want == IF r.kind = "N" THEN KnightT[r.sq] ELSE KingT[r.sq] IN
  SeqSet(r.att) = want \/ Bad("leaper attack set differs", [got |-> SeqSet(r.att), want |-> want])

\* the whole attack map of one colour on a crowded board (several leapers and sliders among their own men)
\* (whether a square held by the attacker's own men counts as attacked differs between the code's piece
\* generators and is immaterial to every caller: compared on all other squares, as in the B1 replay)
CheckAttackMap(r) ==
  LET c == IF r.white THEN W ELSE Bl
      free == { s \in Sq : r.b[s] = 0 \/ Col(r.b[s]) # c }
      want == AttackMap(r.b, c) \cap free
      got == SeqSet(r.att) \cap free IN
  got = want \/ Bad("attack map differs from the union of the pieces' attack sets", [extra |-> got \ want, missing |-> want \ got])

\* C12 on a board observed between a move and its undo inside generation / search (hook H5):
\* representation invariant, and the redundant summaries agree with the squares
CheckBoard(r) ==
  LET o == r.obs  b == o.b  u == r.sum
      pos == [b |-> b, turn |-> o.turn, rights |-> o.cr, ep |-> o.ep]
  IN /\ (BoardInv(pos) \/ Bad("representation invariant broken on a transient board",
                               [kings |-> KingsOK(b), pawns |-> PawnsOK(b), rights |-> RightsOK(b, o.cr), ep |-> EpShapeOK(b, o.ep)]))
     /\ ((/\ \A c \in 1..12 : SeqSet(u.loc[c]) = { q \in Sq : b[q] = c } /\ Len(u.loc[c]) = Cardinality({ q \in Sq : b[q] = c })
          /\ SeqSet(u.occw) = { q \in Sq : b[q] # 0 /\ Col(b[q]) = W }
          /\ SeqSet(u.occb) = { q \in Sq : b[q] # 0 /\ Col(b[q]) = Bl }
          /\ SeqSet(u.occ) = { q \in Sq : b[q] # 0 })
         \/ Bad("occupancy summaries disagree with the squares on a transient board", 0))

\* evaluate::score (what the search uses at its leaves) against the spec's composition: mate scores
\* by remaining depth, zero for stalemate and for a draw by move count, the static score otherwise
CheckScore(r) ==
  LET pos == PosOf(r.pos)
      L == Legal(pos)
      v == Verdict(pos, L)
      sign == IF pos.turn = W THEN -1 ELSE 1
  IN IF ~Consistent(pos) THEN Skip("inconsistent position")
     ELSE IF v = "checkmate" /\ r.hm < 100
          THEN (\A d \in 1..Len(r.scores) : sign * r.scores[d] >= r.mm) \/ Bad("a mated position is not scored as a mate at every remaining depth", r.scores)
     ELSE IF v = "stalemate" \/ r.hm >= 100
          THEN (\A d \in 1..Len(r.scores) : r.scores[d] = 0) \/ Bad("stalemate / draw by move count does not score zero", r.scores)
     ELSE (\A d \in 1..Len(r.scores) : r.scores[d] = r.static) \/ Bad("leaf score of an ordinary position is not its static score", <<r.scores, r.static>>)

\* the text rendering of a board (Display): eight rows, rank 8 first, one glyph per square
GlyphOf(x) == CASE x = 0 -> "." [] x = 1 -> "♟" [] x = 2 -> "♞" [] x = 3 -> "♝" [] x = 4 -> "♜" [] x = 5 -> "♛" [] x = 6 -> "♚"
                [] x = 7 -> "♙" [] x = 8 -> "♘" [] x = 9 -> "♗" [] x = 10 -> "♖" [] x = 11 -> "♕" [] OTHER -> "♔"
CheckRender(r) ==
  (/\ Len(r.rows) = 8
   /\ \A rr \in 1..8 : /\ Len(r.rows[rr]) = 8
                        /\ \A f \in 1..8 : r.rows[rr][f] = GlyphOf(r.pos.b[(8 - rr) * 8 + f]))
  \/ Bad("rendered board differs from the position", r.rows)

Ok == lvl = 2 =>
      LET r == Recs[i] IN
      CASE r.t = "moves" -> CheckMoves(r)
        [] r.t = "succ" -> CheckSucc(r)
        [] r.t = "verdict" -> CheckVerdict(r)
        [] r.t = "san" -> CheckSan(r)
        [] r.t = "uci" -> CheckUci(r)
        [] r.t = "mirror" -> CheckMirror(r)
        [] r.t = "scoremirror" -> CheckScoreMirror(r)
        [] r.t = "attack" -> CheckAttack(r)
        [] r.t = "leaper" -> CheckLeaper(r)
        [] r.t = "attackmap" -> CheckAttackMap(r)
        [] r.t = "board" -> CheckBoard(r)
        [] r.t = "boardkey" -> CheckBoardKey(r)
        [] r.t = "matescore" -> CheckMateScore(r)
        [] r.t = "score" -> CheckScore(r)
        [] r.t = "render" -> CheckRender(r)
        [] r.t = "panic" -> IF Consistent(PosOf(r.pos)) THEN Bad("code under test panicked", r.where)
                            ELSE Skip("inconsistent position")
        [] OTHER -> Bad("unknown record type", r.t)
=============================================================================
