---------------------------- MODULE Oracle_Graph ----------------------------
(***************************************************************************)
(* The legal-move graph below seed positions, for path counting (C10) and  *)
(* minimax folding (C08): one record per (ply, position) state:            *)
(*   k     PosKey                                                          *)
(*   ply   distance from the seed, seed index                              *)
(*   n     number of legal moves                                           *)
(*   v     verdict: none / checkmate / stalemate                           *)
(*   succ  for ply < MaxPly: <<kind, from, to, promo, captured, PosKey(Succ)>> per legal move *)
(* Distinct legal moves lead to distinct successors, so the number of      *)
(* paths of length k in this graph is the number of legal move sequences.  *)
(***************************************************************************)
EXTENDS Notation, Json, IOUtils
CONSTANT MaxPly
Seeds == ndJsonDeserialize(IOEnv.SEEDS)
SeedPos(i) == [b |-> Seeds[i].b, turn |-> Seeds[i].turn, rights |-> Seeds[i].rights, ep |-> Seeds[i].ep]
VARIABLES pos, ply, seed
vars == <<pos, ply, seed>>
Init == \E i \in 1..Len(Seeds) : Consistent(SeedPos(i)) /\ pos = SeedPos(i) /\ ply = 0 /\ seed = i
Next == /\ ply < MaxPly
        /\ \E m \in Legal(pos) : pos' = Succ(pos, m)
        /\ ply' = ply + 1 /\ seed' = seed
Spec == Init /\ [][Next]_vars
Rec == LET L == Legal(pos) IN
       [k |-> PosKey(pos), ply |-> ply, seed |-> seed, n |-> Cardinality(L), v |-> Verdict(pos, L),
        succ |-> IF ply < MaxPly THEN { <<m.k, m.f, m.t, m.p, m.c, PosKey(Succ(pos, m))>> : m \in L } ELSE {}]
Emit == PrintT(ToJson(Rec))
\* With this VIEW (and one worker, i.e. strict breadth-first order) every position is recorded once, at
\* its minimal distance from the seed: enough for folds of any depth <= MaxPly, and far smaller for the
\* deep graphs of tiny endgames.
PosView == pos
=============================================================================
