----------------------------- MODULE SearchLocks -----------------------------
(***************************************************************************)
(* Design-level model of the locking discipline of the parallel search     *)
(* (src/alpha_beta_searcher/mod.rs): every root-move task repeatedly       *)
(*   check_cache : read-lock the result cache; on a hit, while still       *)
(*                 holding it, write-lock the hit counter, bump, release;  *)
(*                 release the cache                                       *)
(*   count       : write-lock the searched-position counter, bump, release *)
(*   set_cache   : write-lock the result cache, insert, release            *)
(* The three locks are std::sync::RwLock.  Two acquisition policies are    *)
(* explored: "fair" (a reader is admitted whenever no writer holds the     *)
(* lock) and "writer-preferring" (a reader waits while a writer is         *)
(* waiting), which is how the futex-based implementation behaves.          *)
(* Checked with TLC's deadlock detection on: from every reachable state    *)
(* some task can move until all have finished (C07 / C09: no interleaving  *)
(* deadlocks), plus mutual exclusion of each lock.                         *)
(***************************************************************************)
EXTENDS Naturals, FiniteSets
CONSTANTS Tasks, Rounds, Policy,     \* Policy \in {"fair", "writer-preferring"}
          Upgrade                   \* negative control: TRUE = a hit refreshes the entry (set_cache) while the
                                    \* read guard is still alive -- the classic RwLock upgrade deadlock

VARIABLES pc,        \* per task: program counter
          round,     \* per task: remaining node visits
          hit,       \* per task: outcome of the current probe
          cacheR,    \* set of tasks holding the cache read lock
          cacheW,    \* set (0 or 1 element) holding the cache write lock
          cacheWait, \* tasks waiting for the cache write lock
          hitW, posW \* holders of the two counter locks
vars == <<pc, round, hit, cacheR, cacheW, cacheWait, hitW, posW>>

Init == /\ pc = [t \in Tasks |-> "probe"] /\ round = [t \in Tasks |-> Rounds]
        /\ hit = [t \in Tasks |-> FALSE]
        /\ cacheR = {} /\ cacheW = {} /\ cacheWait = {} /\ hitW = {} /\ posW = {}

Goto(t, l) == pc' = [pc EXCEPT ![t] = l]

\* check_cache: acquire the read lock
AcqCacheR(t) ==
  /\ pc[t] = "probe" /\ cacheW = {}
  /\ (Policy = "fair" \/ cacheWait = {})
  /\ cacheR' = cacheR \cup {t}
  /\ \E h \in BOOLEAN : hit' = [hit EXCEPT ![t] = h]
  /\ Goto(t, "probed") /\ UNCHANGED <<round, cacheW, cacheWait, hitW, posW>>
\* on a hit: the hit counter is write-locked while the cache read lock is still held
AcqHitW(t) ==
  /\ pc[t] = "probed" /\ hit[t] /\ hitW = {}
  /\ hitW' = {t} /\ Goto(t, "hitlocked") /\ UNCHANGED <<round, hit, cacheR, cacheW, cacheWait, posW>>
RelHitW(t) ==
  /\ pc[t] = "hitlocked"
  /\ hitW' = {} /\ Goto(t, IF Upgrade THEN "store" ELSE "unprobe") /\ UNCHANGED <<round, hit, cacheR, cacheW, cacheWait, posW>>
Miss(t) ==
  /\ pc[t] = "probed" /\ ~hit[t]
  /\ Goto(t, "unprobe") /\ UNCHANGED <<round, hit, cacheR, cacheW, cacheWait, hitW, posW>>
RelCacheR(t) ==
  /\ pc[t] = "unprobe"
  /\ cacheR' = cacheR \ {t}
  \* a hit returns from the node at once; a miss goes on to count and store
  /\ IF hit[t] THEN /\ round' = [round EXCEPT ![t] = @ - 1]
                    /\ Goto(t, IF round[t] = 1 THEN "done" ELSE "probe")
     ELSE Goto(t, "count") /\ UNCHANGED round
  /\ UNCHANGED <<hit, cacheW, cacheWait, hitW, posW>>
AcqPosW(t) ==
  /\ pc[t] = "count" /\ posW = {}
  /\ posW' = {t} /\ Goto(t, "counted") /\ UNCHANGED <<round, hit, cacheR, cacheW, cacheWait, hitW>>
RelPosW(t) ==
  /\ pc[t] = "counted"
  /\ posW' = {} /\ Goto(t, "store") /\ UNCHANGED <<round, hit, cacheR, cacheW, cacheWait, hitW>>
\* set_cache: announce, then acquire the write lock when no reader and no writer holds it
WaitCacheW(t) ==
  /\ pc[t] = "store"
  /\ cacheWait' = cacheWait \cup {t} /\ Goto(t, "storing") /\ UNCHANGED <<round, hit, cacheR, cacheW, hitW, posW>>
AcqCacheW(t) ==
  /\ pc[t] = "storing" /\ cacheR = {} /\ cacheW = {}
  /\ cacheW' = {t} /\ cacheWait' = cacheWait \ {t}
  /\ Goto(t, "stored") /\ UNCHANGED <<round, hit, cacheR, hitW, posW>>
RelCacheW(t) ==
  /\ pc[t] = "stored"
  /\ cacheW' = {}
  /\ round' = [round EXCEPT ![t] = @ - 1]
  /\ Goto(t, IF round[t] = 1 THEN "done" ELSE "probe")
  /\ UNCHANGED <<hit, cacheR, cacheWait, hitW, posW>>

Step(t) == AcqCacheR(t) \/ AcqHitW(t) \/ RelHitW(t) \/ Miss(t) \/ RelCacheR(t) \/ AcqPosW(t) \/ RelPosW(t)
           \/ WaitCacheW(t) \/ AcqCacheW(t) \/ RelCacheW(t)
AllDone == \A t \in Tasks : pc[t] = "done"
Next == (\E t \in Tasks : Step(t)) \/ (AllDone /\ UNCHANGED vars)
Spec == Init /\ [][Next]_vars /\ WF_vars(Next)

Exclusion == /\ Cardinality(cacheW) <= 1 /\ Cardinality(hitW) <= 1 /\ Cardinality(posW) <= 1
             /\ (cacheW # {} => cacheR = {})
Terminates == <>AllDone
=============================================================================
