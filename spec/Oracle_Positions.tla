-------------------------- MODULE Oracle_Positions --------------------------
(***************************************************************************)
(* B1 oracle generator.  Breadth-first exploration of layer R from the     *)
(* seed positions in IOEnv.SEEDS (NDJSON); one JSON record per distinct    *)
(* (ply, position) state is printed.  The Rust harness replays each record *)
(* against the real code (set the position up, ask the same questions,     *)
(* compare field by field).                                                *)
(*                                                                         *)
(* record: k    PosKey of the position                                     *)
(*         ply  distance from its seed;  seed: index of the seed           *)
(*         chk  side to move in check;   v: none / checkmate / stalemate   *)
(*         tags rule interactions exercised (module Tags)                  *)
(*         mv   one entry per legal move:                                  *)
(*              <<kind, from, to, promo, captured, PosKey(SuccNoFlip)>>    *)
(*              and, if WithText, additionally <<uci, san, effect>>        *)
(*         aw, ab (if WithAttacks) attacked-square sets of white / black   *)
(***************************************************************************)
EXTENDS Tags, Json, IOUtils
CONSTANTS MaxPly, WithText, WithAttacks

Seeds == ndJsonDeserialize(IOEnv.SEEDS)
SeedPos(i) == [b |-> Seeds[i].b, turn |-> Seeds[i].turn, rights |-> Seeds[i].rights, ep |-> Seeds[i].ep]

VARIABLES pos, ply, seed
vars == <<pos, ply, seed>>

\* seeds that are not a consistent set-up (e.g. a colour-flipped twin that leaves a king en prise) are dropped
Init == \E i \in 1..Len(Seeds) : Consistent(SeedPos(i)) /\ pos = SeedPos(i) /\ ply = 0 /\ seed = i
Next == /\ ply < MaxPly
        /\ \E m \in Legal(pos) : pos' = Succ(pos, m)
        /\ ply' = ply + 1
        /\ seed' = seed
Spec == Init /\ [][Next]_vars

MoveRec(m, L) ==
  LET base == <<m.k, m.f, m.t, m.p, m.c, PosKey(SuccNoFlip(pos, m))>>
      eff == Effect(pos, m)
  IN IF WithText THEN base \o <<UCI(m), SANe(pos, m, L, eff), eff>> ELSE base

Rec ==
  LET L == Legal(pos)
      core == [k |-> PosKey(pos), ply |-> ply, seed |-> seed, chk |-> InCheck(pos),
               v |-> Verdict(pos, L), tags |-> PosTags(pos, L),
               ok |-> Consistent(pos),
               mv |-> { MoveRec(m, L) : m \in L }]
  IN IF WithAttacks
     THEN core @@ [aw |-> AttackMap(pos.b, W), ab |-> AttackMap(pos.b, Bl)]
     ELSE core

Emit == PrintT(ToJson(Rec))
=============================================================================
