SPECIFICATION Spec
INVARIANT Ok
CHECK_DEADLOCK FALSE
