SPECIFICATION Spec
CONSTANTS KeyMode = "retire"
 RegKeyMode = "position+side"
 MaxDepth = 4
INVARIANT CacheCoherent
CHECK_DEADLOCK FALSE
