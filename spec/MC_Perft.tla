------------------------------ MODULE MC_Perft ------------------------------
(* Self-test of layer R against the published perft table: the number of states TLC
   generates below a root equals the number of legal move sequences (every Next step
   is one legal move; "generated" counts successors before duplicate elimination). *)
EXTENDS Rules, Json, IOUtils
CONSTANT MaxPly
Seeds == ndJsonDeserialize(IOEnv.SEEDS)
RootIx == atoi(IOEnv.ROOT)
VARIABLES pos, ply
Init == pos = [b |-> Seeds[RootIx].b, turn |-> Seeds[RootIx].turn,
               rights |-> Seeds[RootIx].rights, ep |-> Seeds[RootIx].ep] /\ ply = 0
Next == /\ ply < MaxPly
        /\ \E m \in Legal(pos) : pos' = Succ(pos, m)
        /\ ply' = ply + 1
Spec == Init /\ [][Next]_<<pos, ply>>
WellFormed == Consistent(pos)
=============================================================================
