SPECIFICATION Spec
CONSTANTS MaxPly = 1
 WithText = TRUE
 WithAttacks = TRUE
INVARIANT Emit
CHECK_DEADLOCK FALSE
