--------------------------- MODULE Oracle_Geometry ---------------------------
(***************************************************************************)
(* C11 oracle: the complete enumeration of slider attack geometry.  For    *)
(* every rook / bishop square and EVERY subset of its relevant blocker     *)
(* squares (102 400 + 5 248 cases) the attack set by ray walking, plus the *)
(* 64 knight and 64 king attack sets.  One JSON record per case:           *)
(*   [kind, sq, blockers, attacks]                                         *)
(***************************************************************************)
EXTENDS Geometry, TLC, Json
VARIABLES lvl, kind, sq, occ
vars == <<lvl, kind, sq, occ>>
Init == lvl = 0 /\ kind = "" /\ sq = 0 /\ occ = {}
Next == \/ lvl = 0 /\ lvl' = 1 /\ kind' \in {"R", "B"} /\ sq' \in Sq /\ occ' = {}
        \/ lvl = 1 /\ lvl' = 2 /\ kind' = kind /\ sq' = sq /\ occ' \in SUBSET RelevantMask(kind, sq)
        \/ lvl = 0 /\ lvl' = 2 /\ kind' \in {"N", "K"} /\ sq' \in Sq /\ occ' = {}
Spec == Init /\ [][Next]_vars
Att == CASE kind = "N" -> KnightT[sq]
         [] kind = "K" -> KingT[sq]
         [] OTHER -> SliderAttacks(kind, sq, occ)
Emit == lvl = 2 => PrintT(ToJson(<<kind, sq, occ, Att>>))
=============================================================================
