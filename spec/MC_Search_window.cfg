SPECIFICATION Spec
CONSTANTS
  Children <- ChildrenC
  PosKey <- PosKeyC
  Static <- StaticC
  MateBonus <- MateC
  Root = 0
  RootMax = TRUE
  Depth = 3
  KeyMode = "window"
INVARIANTS ExactValue ExactTasks
PROPERTY Terminates
