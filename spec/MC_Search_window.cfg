SPECIFICATION Spec
CONSTANTS
  Children <- ChildrenC
  PosKey <- PosKeyC
  Static <- StaticC
  MateBonus <- MateC
  Root = 0
  RootMax = TRUE
  Depth = 3
  Root2 = 9999
  Root2Max = TRUE
  KeyMode = "window"
INVARIANTS ExactValue ExactTasks
PROPERTY Terminates
