#!/bin/sh
# Build the conformance harness (and with it /repo's working tree, hooks on) offline.
set -e
cd "$(dirname "$0")"
export CARGO_NET_OFFLINE=true
[ -f harness/Cargo.lock ] || cp /repo/Cargo.lock harness/Cargo.lock
(cd harness && cargo build --release --offline)
# the command-line level of C14 drives the real binary (dev profile, own target directory)
cargo build --offline --bin chess --manifest-path /repo/Cargo.toml --target-dir harness/target/chessbin
mkdir -p work replays evidence
echo "setup done"
