#!/usr/bin/env python3
"""Seeded changes (from independent sub-agents): confirm, store under /verif/seeded/<id>/, and run checks against them.

  seeded.py confirm <worktree> <id> <property>      confirm (suite passes, demo fails with / passes without) and store
  seeded.py eval <id> [check ...]                   apply to /repo, run the quick checks, undo; record what caught it
"""
import json
import os
import shutil
import subprocess
import sys
import time

VERIF = os.path.dirname(os.path.dirname(os.path.abspath(__file__)))
SEEDED = os.path.join(VERIF, "seeded")


def sh(cmd, cwd=None, env=None, timeout=3600):
    e = dict(os.environ)
    if env:
        e.update(env)
    p = subprocess.run(cmd, shell=True, cwd=cwd, env=e, stdout=subprocess.PIPE, stderr=subprocess.STDOUT, text=True, timeout=timeout)
    return p.returncode, p.stdout


def confirm(wt, sid, prop):
    env = {"CARGO_TARGET_DIR": os.path.join(wt, "target"), "CARGO_NET_OFFLINE": "true"}
    mdir = os.path.join(wt, "MUTATION")
    patch = os.path.join(mdir, "patch.diff")
    ran = []
    # make sure the worktree carries exactly the patch
    sh("git checkout -- . ", cwd=wt)
    rc, out = sh("git apply --check %s" % patch, cwd=wt)
    if rc != 0:
        print("patch does not apply:", out)
        return 1
    demo_src = os.path.join(mdir, "mutation_demo.rs")
    os.makedirs(os.path.join(wt, "tests"), exist_ok=True)
    demo_dst = os.path.join(wt, "tests", "mutation_demo.rs")
    if os.path.exists(demo_dst):
        os.unlink(demo_dst)
    def drop_tables():
        # the repository's build script regenerates its tables only when they are absent from OUT_DIR
        sh("rm -rf target/*/build/chess-*/ target/*/.fingerprint/chess-*/", cwd=wt)

    touches_build = any(k in open(patch).read() for k in ("precompile/", "opening_lines.txt", "common/"))
    # unchanged code: demo passes
    if touches_build:
        drop_tables()
    shutil.copy(demo_src, demo_dst)
    rc0, out0 = sh("cargo test --offline --test mutation_demo 2>&1 | tail -15", cwd=wt, env=env)
    ok_without = "test result: ok" in out0
    ran.append({"cmd": "cargo test --offline --test mutation_demo   (unchanged code)", "passed": ok_without})
    sh("git apply %s" % patch, cwd=wt)
    if touches_build:
        drop_tables()
    rc1, out1 = sh("cargo test --offline --test mutation_demo 2>&1 | tail -25", cwd=wt, env=env)
    fails_with = any(k in out1 for k in ("test result: FAILED", "panicked", "overflowed its stack", "SIGABRT", "signal: ", "SIGSEGV"))
    ran.append({"cmd": "cargo test --offline --test mutation_demo   (with the change)", "failed": fails_with})
    os.unlink(demo_dst)
    rc2, out2 = sh("cargo test --workspace --no-fail-fast --offline 2>&1 | grep -E '^test result|FAILED' | head -5", cwd=wt, env=env)
    suite_ok = "90 passed; 0 failed" in out2
    ran.append({"cmd": "cargo test --workspace --no-fail-fast --offline   (with the change, demo removed)", "result": out2.strip().splitlines()[:1]})
    shutil.copy(demo_src, demo_dst)
    print(json.dumps(ran, indent=1))
    if not (ok_without and fails_with and suite_ok):
        print("NOT CONFIRMED", sid)
        return 1
    d = os.path.join(SEEDED, sid)
    os.makedirs(d, exist_ok=True)
    shutil.copy(patch, os.path.join(d, "patch.diff"))
    shutil.copy(demo_src, os.path.join(d, "mutation_demo.rs"))
    readme = os.path.join(mdir, "README.md")
    if os.path.exists(readme):
        shutil.copy(readme, os.path.join(d, "AGENT_README.md"))
    meta = {"id": sid, "property": prop, "source": "independent sub-agent given only the property text and a scratch worktree",
            "needs_to_manifest": "see AGENT_README.md", "confirmed": ran, "confirmed_at": time.strftime("%Y-%m-%d %H:%M"), "checks": {}}
    mp = os.path.join(d, "meta.json")
    if os.path.exists(mp):
        old = json.load(open(mp))
        meta["checks"] = old.get("checks", {})
    json.dump(meta, open(mp, "w"), indent=1)
    print("CONFIRMED", sid)
    return 0


SCRATCH = os.environ.get("VERIF_SCRATCH", "/tmp/evalscratch")


def scratch_env():
    """a scratch worktree of /repo plus a copy of the harness crate whose path dependencies point at it,
    so that changes can be evaluated without touching /repo (which background runs may be using)"""
    repo = os.path.join(SCRATCH, "repo")
    hd = os.path.join(SCRATCH, "harness")
    if not os.path.exists(repo):
        os.makedirs(SCRATCH, exist_ok=True)
        sh("git -C /repo worktree add --detach %s HEAD" % repo)
    sh("git checkout -q --detach $(git -C /repo rev-parse HEAD) && git checkout -- .", cwd=repo)
    os.makedirs(hd, exist_ok=True)
    sh("rsync -a --delete --exclude target %s/ %s/" % (os.path.join(VERIF, "harness"), hd))
    ct = open(os.path.join(hd, "Cargo.toml")).read().replace('path = "/repo"', 'path = "%s"' % repo).replace('path = "/repo/common"', 'path = "%s/common"' % repo)
    open(os.path.join(hd, "Cargo.toml"), "w").write(ct)
    return {"VERIF_REPO": repo, "VERIF_HARNESS_DIR": hd, "VERIF_OUT": os.path.join(SCRATCH, "out")}, repo


def evaluate_scratch(sid, checks):
    d = os.path.join(SEEDED, sid)
    meta = json.load(open(os.path.join(d, "meta.json")))
    if not checks:
        checks = [meta["property"]]
    env, repo = scratch_env()
    rc, out = sh("git apply %s" % os.path.join(d, "patch.diff"), cwd=repo)
    if rc != 0:
        print("patch does not apply:", out)
        return 2
    try:
        for c in checks:
            t0 = time.time()
            rc, out = sh("./check %s --tier quick" % c, cwd=VERIF, env=env, timeout=7200)
            viol = [l for l in out.splitlines() if l.startswith("VIOLATION")]
            whys = [l.strip() for l in out.splitlines() if l.startswith("  ") and ":" in l][:3]
            meta["checks"][c] = {"exit": rc, "violation_lines": len(viol), "first": [w[:300] for w in whys], "wall_s": round(time.time() - t0, 1),
                                 "verdict": "caught" if rc == 1 else ("tool-error" if rc == 2 else "missed"), "evaluated_on": "scratch worktree"}
            print(sid, c, meta["checks"][c]["verdict"], "exit", rc, whys[:1])
            if rc == 2:
                print(out[-1500:])
    finally:
        sh("git checkout -- .", cwd=repo)
    json.dump(meta, open(os.path.join(d, "meta.json"), "w"), indent=1)
    return 0


def evaluate(sid, checks):
    d = os.path.join(SEEDED, sid)
    meta = json.load(open(os.path.join(d, "meta.json")))
    if not checks:
        checks = [meta["property"]]
    rc, out = sh("git -C /repo status --porcelain")
    if out.strip():
        print("refusing: /repo is not clean:\n" + out)
        return 2
    rc, out = sh("git -C /repo apply %s" % os.path.join(d, "patch.diff"))
    if rc != 0:
        print("patch does not apply to /repo:", out)
        return 2
    try:
        for c in checks:
            t0 = time.time()
            rc, out = sh("./check %s --tier quick" % c, cwd=VERIF, timeout=7200)
            viol = [l for l in out.splitlines() if l.startswith("VIOLATION")]
            whys = [l.strip() for l in out.splitlines() if l.startswith("  ") and ":" in l][:3]
            meta["checks"][c] = {"exit": rc, "violation_lines": len(viol), "first": [w[:300] for w in whys], "wall_s": round(time.time() - t0, 1),
                                 "verdict": "caught" if rc == 1 else ("tool-error" if rc == 2 else "missed")}
            print(sid, c, meta["checks"][c]["verdict"], "exit", rc, whys[:1])
            if rc == 2:
                print(out[-1500:])
    finally:
        sh("git -C /repo checkout -- .")
    json.dump(meta, open(os.path.join(d, "meta.json"), "w"), indent=1)
    return 0


if __name__ == "__main__":
    if sys.argv[1] == "confirm":
        sys.exit(confirm(sys.argv[2], sys.argv[3], sys.argv[4]))
    if sys.argv[1] == "eval":
        sys.exit(evaluate(sys.argv[2], sys.argv[3:]))
    if sys.argv[1] == "eval-scratch":
        sys.exit(evaluate_scratch(sys.argv[2], sys.argv[3:]))
