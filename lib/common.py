"""Shared machinery of the check driver: context, harness build, evidence, violations, known findings."""
import glob
import hashlib
import json
import os
import shutil
import subprocess
import sys
import time

import fen as fenlib
import tlc

VERIF = tlc.VERIF
REPO = os.environ.get("VERIF_REPO", "/repo")
HARNESS_DIR = os.environ.get("VERIF_HARNESS_DIR", os.path.join(VERIF, "harness"))
HARNESS = os.path.join(HARNESS_DIR, "target", "release", "harness")
WORK = tlc.WORK
REPLAYS = os.path.join(tlc.OUT, "replays")
EVIDENCE = os.path.join(tlc.OUT, "evidence")
KNOWN = os.path.join(VERIF, "known_findings.json")


class ToolError(Exception):
    """Something in the machinery failed; never reported as a violation (exit 2)."""


def log(*a):
    print(*a, file=sys.stderr, flush=True)


# --------------------------------------------------------------------------- harness build

def _digest_generated_inputs():
    h = hashlib.sha256()
    paths = [os.path.join(REPO, "opening_lines.txt"), os.path.join(REPO, "Cargo.toml"), os.path.join(REPO, "Cargo.lock")]
    for d in ("precompile", "common"):
        for root, dirs, files in os.walk(os.path.join(REPO, d)):
            dirs[:] = sorted(x for x in dirs if x != "target")
            for f in sorted(files):
                paths.append(os.path.join(root, f))
    for p in paths:
        h.update(p.encode())
        try:
            with open(p, "rb") as f:
                h.update(f.read())
        except OSError:
            h.update(b"<missing>")
    return h.hexdigest()


def drop_generated_tables():
    """The repository's build script regenerates zobrist/magic/book files only when they are
    absent from OUT_DIR; delete them so that the next build redraws / recompiles them."""
    n = 0
    # removing the out dir alone does not make cargo re-run the build script; drop its
    # fingerprints too so that it is rebuilt and re-run
    for pat in (("build", "chess-*"), (".fingerprint", "chess-*")):
        for d in glob.glob(os.path.join(HARNESS_DIR, "target", "*", *pat)):
            shutil.rmtree(d, ignore_errors=True)
            n += 1
    return n


def ensure_harness(fresh_tables=False):
    """Build the harness (and with it /repo's current working tree, hooks enabled)."""
    lock = os.path.join(HARNESS_DIR, "Cargo.lock")
    if not os.path.exists(lock):
        shutil.copy(os.path.join(REPO, "Cargo.lock"), lock)
    os.makedirs(os.path.join(HARNESS_DIR, "target"), exist_ok=True)
    dig_file = os.path.join(HARNESS_DIR, "target", ".generated_inputs.sha256")
    dig = _digest_generated_inputs()
    old = open(dig_file).read().strip() if os.path.exists(dig_file) else ""
    if fresh_tables or old != dig:
        n = drop_generated_tables()
        if n:
            log("harness: dropped %d generated table files (inputs changed or fresh draw requested)" % n)
    env = dict(os.environ)
    env["CARGO_NET_OFFLINE"] = "true"
    t0 = time.time()
    p = subprocess.run(["cargo", "build", "--release", "--offline"], cwd=HARNESS_DIR, env=env,
                       stdout=subprocess.PIPE, stderr=subprocess.STDOUT, text=True)
    if p.returncode != 0:
        raise ToolError("harness build failed (the tree under test must compile with --cfg chess_verif):\n" + p.stdout[-4000:])
    with open(dig_file, "w") as f:
        f.write(dig)
    log("harness: built in %.1fs" % (time.time() - t0))


class HarnessCrash(ToolError):
    """the harness process was killed by a signal (e.g. a stack overflow inside the code under test);
    .marker is what it was doing"""
    marker = None


def harness(args, timeout=3600, parse=True, env=None):
    e = dict(os.environ)
    if env:
        e.update(env)
    marker = os.path.join(WORK, "marker_%d_%d.json" % (os.getpid(), id(args) % 100000))
    e["VERIF_MARKER"] = marker
    if os.path.exists(marker):
        os.unlink(marker)
    try:
        p = subprocess.run([HARNESS] + [str(a) for a in args], stdout=subprocess.PIPE, stderr=subprocess.PIPE,
                           text=True, timeout=timeout, env=e)
    except subprocess.TimeoutExpired:
        raise ToolError("harness %s timed out after %ss" % (args[0], timeout))
    mk = None
    if os.path.exists(marker):
        try:
            mk = json.load(open(marker))
        except Exception:
            mk = None
        os.unlink(marker)
    if p.returncode < 0 and mk is not None:
        ex = HarnessCrash("harness %s was killed by signal %d while: %s\n%s" % (args[0], -p.returncode, mk, p.stderr[-500:]))
        ex.marker = mk
        ex.signal = -p.returncode
        ex.stderr = p.stderr[-500:]
        raise ex
    if p.returncode != 0:
        raise ToolError("harness %s failed (exit %s): %s" % (" ".join(map(str, args[:3])), p.returncode, p.stderr[-2000:]))
    if not parse:
        return p.stdout
    lines = [l for l in p.stdout.splitlines() if l.strip()]
    try:
        return json.loads(lines[-1])
    except Exception:
        raise ToolError("harness %s printed no JSON summary: %s" % (args[0], p.stdout[-500:]))


# --------------------------------------------------------------------------- seeds

def load_seeds():
    return json.load(open(os.path.join(tlc.SPEC, "seeds.json")))


def seed_records(seeds, both_colours=False):
    """Seed catalogue as spec position records; optionally add the colour-to-move-flipped twin
    (en-passant target dropped) -- the oracle keeps it only if it is Consistent."""
    out = []
    for s in seeds:
        p = fenlib.parse(s["fen"])
        p["name"] = s["name"]
        out.append(p)
        if both_colours:
            q = dict(p)
            q["turn"] = 1 - p["turn"]
            q["ep"] = 0
            q["name"] = s["name"] + "~flipped"
            out.append(q)
    return out


def write_ndjson(path, recs):
    with open(path, "w") as f:
        for r in recs:
            f.write(json.dumps(r) + "\n")
    return path


def read_ndjson(path):
    return [json.loads(l) for l in open(path) if l.strip()]


# --------------------------------------------------------------------------- context

class Ctx:
    def __init__(self, prop, tier, seed):
        self.prop = prop
        self.tier = tier
        self.seed = seed
        self.t0 = time.time()
        self.states = 0
        self.transitions = 0
        self.traces = 0
        self.evaluations = 0
        self.nontrivial = 0
        self.samples = []
        self.extra = {}
        self.assumptions = []
        self.viol = []          # (signature dict, payload dict)
        self.rule = ""
        self.exhaustive = False
        self.tlc_runs = []
        os.makedirs(WORK, exist_ok=True)
        self.workdir = os.path.join(WORK, "%s_%s_%d" % (prop, tier, os.getpid()))
        os.makedirs(self.workdir, exist_ok=True)

    def path(self, name):
        return os.path.join(self.workdir, name)

    def run_tlc(self, module, cfg, **kw):
        r = tlc.run(module, cfg, **kw)
        self.states += r.distinct
        self.transitions += r.generated
        self.tlc_runs.append({"module": module, "cfg": os.path.basename(cfg), "distinct": r.distinct,
                              "generated": r.generated, "wall_s": round(r.wall, 1)})
        return r

    def sample(self, x):
        if len(self.samples) < 6:
            self.samples.append(x)

    def violation(self, what, payload, sig=None):
        s = {"what": what}
        if sig:
            s.update(sig)
        self.viol.append((s, payload))

    def require_tags(self, tagcounts, required):
        missing = [t for t in required if tagcounts.get(t, 0) == 0]
        if missing:
            raise ToolError("vacuity guard: required cases never exercised in this run: %s" % ", ".join(missing))

    def cleanup(self):
        shutil.rmtree(self.workdir, ignore_errors=True)

    # ------------------------------------------------------------------ finish
    def finish(self, level="model_checking"):
        known = []
        if os.path.exists(KNOWN):
            known = [k for k in json.load(open(KNOWN)).get("findings", []) if k.get("property") == self.prop and k.get("status") == "open"]
        os.makedirs(REPLAYS, exist_ok=True)
        os.makedirs(EVIDENCE, exist_ok=True)
        new = []
        known_hit = {}
        for sig, payload in self.viol:
            hit = None
            for k in known:
                if all(sig.get(a) == b for a, b in k.get("match", {}).items()):
                    hit = k
                    break
            if hit is not None:
                known_hit.setdefault(hit["id"], [hit, 0])[1] += 1
            else:
                new.append((sig, payload))
        for kid, (k, n) in known_hit.items():
            print("KNOWN-FINDING: property=%s %s [%s, %d occurrence(s) in this run]" % (self.prop, k["text"], kid, n))
        lines = 0
        for n, (sig, payload) in enumerate(new):
            if n >= 8:
                break
            rp = os.path.join(REPLAYS, "%s-%s-%d-%d.json" % (self.prop, self.tier, self.seed, n))
            with open(rp, "w") as f:
                json.dump({"property": self.prop, "signature": sig, "payload": payload, "seed": self.seed, "tier": self.tier}, f, indent=1)
            print("VIOLATION property=%s replay=%s" % (self.prop, rp))
            log("  %s: %s" % (sig.get("what"), json.dumps(payload)[:400]))
            lines += 1
        if len(new) > 8:
            log("  ... and %d more violations (not written)" % (len(new) - 8))
        cov = {
            "states": self.states,
            "transitions": self.transitions,
            "traces_validated_against_impl": self.traces,
            "samples": self.samples if self.samples else [{"note": "no sample recorded"}],
            "evaluations": self.evaluations,
            "distinct_nontrivial": self.nontrivial,
            "rule": self.rule,
            "exhaustive": self.exhaustive,
            "tlc_runs": self.tlc_runs,
        }
        cov.update(self.extra)
        ev = {
            "property_id": self.prop,
            "tier": self.tier,
            "seed": self.seed,
            "level": level,
            "coverage": cov,
            "assumptions": self.assumptions,
            "wall_s": round(time.time() - self.t0, 1),
            "violations": len(new),
            "known_findings_hit": {k: v[1] for k, v in known_hit.items()},
        }
        with open(os.path.join(EVIDENCE, self.prop + ".json"), "w") as f:
            json.dump(ev, f, indent=1)
        self.cleanup()
        log("%s %s: %d violation(s), %d known, states=%d transitions=%d traces=%d evaluations=%d in %.1fs" % (
            self.prop, self.tier, len(new), sum(v[1] for v in known_hit.values()), self.states, self.transitions,
            self.traces, self.evaluations, time.time() - self.t0))
        return 1 if new else 0
