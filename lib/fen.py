"""FEN <-> spec position records (b[64] with a1 first, turn 1=white, rights bits WK8 BK4 WQ2 BQ1, ep 1..64 or 0)."""
PCS = "PNBRQKpnbrqk"

def sq(name):
    if name == "-":
        return 0
    return (ord(name[0]) - 97) + (int(name[1]) - 1) * 8 + 1

def sqname(s):
    return "-" if s == 0 else "abcdefgh"[(s - 1) % 8] + str((s - 1) // 8 + 1)

def parse(fen):
    parts = fen.split()
    rows = parts[0].split("/")
    b = [0] * 64
    for i, row in enumerate(rows):
        r = 7 - i
        f = 0
        for ch in row:
            if ch.isdigit():
                f += int(ch)
            else:
                b[r * 8 + f] = PCS.index(ch) + 1
                f += 1
    turn = 1 if parts[1] == "w" else 0
    cr = parts[2] if len(parts) > 2 else "-"
    rights = (8 if "K" in cr else 0) + (4 if "k" in cr else 0) + (2 if "Q" in cr else 0) + (1 if "q" in cr else 0)
    ep = sq(parts[3]) if len(parts) > 3 else 0
    return {"b": b, "turn": turn, "rights": rights, "ep": ep}

def fen(pos):
    rows = []
    for r in range(7, -1, -1):
        row = ""
        e = 0
        for f in range(8):
            x = pos["b"][r * 8 + f]
            if x == 0:
                e += 1
            else:
                if e:
                    row += str(e)
                    e = 0
                row += PCS[x - 1]
        if e:
            row += str(e)
        rows.append(row)
    r = pos["rights"]
    cr = ("K" if r & 8 else "") + ("Q" if r & 2 else "") + ("k" if r & 4 else "") + ("q" if r & 1 else "")
    return "/".join(rows) + (" w " if pos["turn"] == 1 else " b ") + (cr or "-") + " " + sqname(pos["ep"])

def poskey(pos):
    """The PosKey of Notation.tla: eight base-13 rank integers, turn, rights, ep."""
    k = []
    for r in range(8):
        v = 0
        for f in range(7, -1, -1):
            v = v * 13 + pos["b"][r * 8 + f]
        k.append(v)
    return k + [pos["turn"], pos["rights"], pos["ep"]]

def from_poskey(k):
    b = []
    for r in range(8):
        v = k[r]
        for f in range(8):
            b.append(v % 13)
            v //= 13
    return {"b": b, "turn": k[8], "rights": k[9], "ep": k[10]}
