#!/bin/sh
# For every "fix:" commit in /repo: revert it in the working tree, run the check(s) that should notice, restore.
# Results go to /verif/seeded/prefix-<id>/meta.json (patch.diff = the reverse of the fix).
set -u
cd /verif
run() { # id property commit-subject-prefix checks...
  id=$1; prop=$2; subj=$3; shift 3
  c=$(git -C /repo log --format='%H %s' | grep -F "$subj" | head -1 | cut -d' ' -f1)
  [ -z "$c" ] && { echo "no commit for $id"; return; }
  mkdir -p seeded/prefix-$id
  git -C /repo diff $c $c~1 > seeded/prefix-$id/patch.diff
  python3 - "$id" "$prop" "$c" <<'PY'
import json,sys,os
i,prop,c=sys.argv[1:4]
d='/verif/seeded/prefix-'+i
m={"id":"prefix-"+i,"property":prop,"source":"reverse of fix commit "+c+" (the defect as it was on the pinned tree)","needs_to_manifest":"see known_findings.json "+i,"checks":{}}
if os.path.exists(d+'/meta.json'):
    m["checks"]=json.load(open(d+'/meta.json')).get("checks",{})
json.dump(m,open(d+'/meta.json','w'),indent=1)
PY
  python3 lib/seeded.py eval prefix-$id "$@" 2>&1 | grep "^prefix-" | cut -c1-300
}
run D1 C05 "fix: retire the previous en passant" C05 C02 C10
run D2 C07 "fix: report NoAvailableMoves" C07
run D3 C08 "fix: key the search result cache" C08 C09
run D4 C13 "fix: disambiguate notation" C13 C14
run D5 C14 "fix: accept castling notation" C14
run D6a C15 "fix: Caro-Kann" C15
run D6b C15 "fix: fall back to search" C15
run D7a C16 "fix: reset the halfmove clock" C16
run D7b C16 "fix: draw by move count" C16
run D7c C16 "fix: widen the halfmove" C16
run D8a C17 "fix: count position occurrences" C17
