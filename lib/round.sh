#!/bin/sh
# usage: round.sh <suffix letter> C15 C12 ...   (confirm the change of each property in /tmp/mut/<prop><suffix>, then evaluate it on the scratch copy)
cd /verif
sfx=$1; shift
for p in "$@"; do
  echo "=== $p"
  python3 lib/seeded.py confirm /tmp/mut/${p}${sfx} ${p}-${sfx} $p 2>&1 | grep -v WARNING | tail -3
  if [ -d seeded/${p}-${sfx} ]; then
    python3 lib/seeded.py eval-scratch ${p}-${sfx} 2>&1 | grep -v WARNING | tail -4
  fi
done
echo ALLDONE
