"""./check <property> --replay <file>: re-execute one recorded violation against the current tree.
Exit 1 (with a VIOLATION line) if it still reproduces, 0 if it no longer does, 2 on tool trouble."""
import json
import os
import sys

import common
import engines
import tlc
import fen as fenlib


def main(prop, path):
    rec = json.load(open(path))
    payload = rec.get("payload", {})
    ctx = common.Ctx(prop, "quick", rec.get("seed", 1))
    try:
        common.ensure_harness()
        n = rerun(ctx, prop, payload, rec)
    except (common.ToolError, tlc.TlcError) as e:
        print("TOOL-ERROR %s: %s" % (prop, e), file=sys.stderr)
        ctx.cleanup()
        return 2
    ctx.cleanup()
    if n:
        print("VIOLATION property=%s replay=%s" % (prop, path))
        print("reproduced: %d matching difference(s) on the current tree" % n, file=sys.stderr)
        return 1
    print("not reproduced on the current tree", file=sys.stderr)
    return 0


def rerun(ctx, prop, payload, rec):
    binding = payload.get("binding", "")
    if "pos" in payload or ("record" in payload and "pos" in payload["record"]) or ("query" in payload):
        # a single position: regenerate its oracle record and replay it for this property
        pos = payload.get("pos") or (payload.get("record") or payload.get("query"))["pos"]
        summ = engines.oracle_replay(ctx, [dict(pos, name="replay")], 0, [prop], text=True, attacks=True, label="replay")
        n = summ["violations"].get(prop, 0)
        for m in summ["mismatches"]:
            common.log(json.dumps(m)[:600])
        if prop == "C02":
            import props_misc
        return n
    if "harness_args" in payload:
        out = ctx.path("replay_trace.ndjson")
        args = list(payload["harness_args"])
        args[1] = out
        if "--seeds" in args:
            # the recording's seed file lived in a work directory that is gone: the catalogue is written again
            sp = common.write_ndjson(ctx.path("replay_seeds.ndjson"), common.seed_records(common.load_seeds()))
            args[args.index("--seeds") + 1] = sp
        common.harness(args, timeout=3600)
        env = {"TRACE": out}
        if prop == "C01":
            env["RESYNC"] = "0"     # C01 judges the move lists against the un-resynchronised model
        r = tlc.run("Trace_Engine", "Trace_Engine.cfg", env=env, workers=1, want_records=True, stack="64m", heap="1500m", young="300m", timeout=3600)
        import props_engine
        n = 0
        for x in r.records:
            if "bad" in x and (props_engine.in_scope(prop, x) or x.get("ev") in ("Coord", "CoordBatch", "Label", "LabelBatch", "EngineMove", "BookEdges", "GEnding", "GLabels", "Cli")):
                n += 1
                common.log(json.dumps(x)[:500])
        return n
    if prop == "C08" and "fen" in payload:
        import props_search
        import graph
        depth = payload["depth"]
        out = ctx.path("replay_exact.ndjson")
        common.harness(["search-exact", out, "--fen", payload["fen"], "--depth", depth, "--roots", 5, "--threads", 4])
        searches = common.read_ndjson(out)
        root = fenlib.parse(payload["fen"])
        g = graph.generate(ctx, [dict(root, name="replay")], depth, label="replay")
        kp = ctx.path("keys.ndjson")
        with open(kp, "w") as f:
            for k in g.nodes:
                f.write(json.dumps(list(k)) + "\n")
        sp = ctx.path("static.ndjson")
        common.harness(["static-eval", kp, sp])
        static, mate = {}, None
        for line in open(sp):
            r = json.loads(line)
            if "mate" in r:
                mate = r["mate"]
            else:
                static[tuple(r["k"])] = r["s"]
        k = tuple(fenlib.poskey(root))
        memo = {}
        want = props_search.fold_minimax(g, static, mate, k, depth, memo)
        n = 0
        for s in searches:
            ok = s["res"]["kind"] == "ok" and s["score"] == want
            if ok:
                m = s["res"]["m"]
                mt = (m["k"], m["f"], m["t"], m["p"], m["c"])
                child = [sk for mv, sk in g.nodes[k]["succ"] if mv == mt]
                ok = bool(child) and props_search.fold_minimax(g, static, mate, child[0], depth - 1, memo) == want
            if not ok:
                n += 1
                common.log("search: %s score %s; minimax %s" % (s["res"], s["score"], want))
        return n
    if prop == "C09" and "fen" in payload:
        out = ctx.path("replay_sched.ndjson")
        common.harness(["search-sched", out, "--fen", payload["fen"], "--depth", payload["depth"], "--positions", 1, "--schedules", 27, "--seed", payload.get("trace_seed", 1)], timeout=3600)
        n = 0
        for line in open(out):
            r = json.loads(line)
            if r["t"] == "outcomes":
                outs = set(json.dumps(o["outcome"], sort_keys=True) for o in r["outcomes"])
                if len(outs) > 1:
                    n += 1
                    common.log("answers: %s" % outs)
        return n
    if prop == "C10" and "seed" in payload:
        import props_misc
        import graph
        seeds = {s["name"]: s for s in common.load_seeds()}
        recs = common.seed_records([seeds[payload["seed"]]])
        d = payload["depth"]
        g = graph.generate(ctx, recs, d, label="replay")
        want = graph.count_positions(g, g.roots[1], d)
        cp = ctx.path("cases.json")
        json.dump([{"name": payload["seed"], "pos": recs[0], "depths": [d]}], open(cp, "w"))
        summ = common.harness(["perft", cp])
        n = 0
        for c in summ["cases"]:
            for entry, r in c["results"].items():
                if r.get("n") != want:
                    n += 1
                    common.log("%s: %s, want %d" % (entry, r, want))
        return n
    if prop == "C11" and "case" in payload:
        c = payload["case"]
        out = ctx.path("geo.ndjson")
        with open(out, "w") as f:
            f.write(json.dumps(json.dumps([c["kind"], c["sq"], c["occ"], c["want"]])) + "\n")
        summ = common.harness(["geometry", out])
        return summ["violations"]
    raise common.ToolError("this replay file carries no re-executable case")
