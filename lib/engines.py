"""The two history-free bindings: B1 oracle replay (spec -> code) and B2 record validation (code -> spec)."""
import json
import os
from concurrent.futures import ThreadPoolExecutor

import tlc
from common import ToolError, harness, log, write_ndjson, read_ndjson

ORACLE_CFG = """SPECIFICATION Spec
CONSTANTS MaxPly = {ply}
 WithText = {text}
 WithAttacks = {attacks}
INVARIANT Emit
CHECK_DEADLOCK FALSE
"""


def oracle_replay(ctx, seed_recs, ply, props, text=False, attacks=False, game_sample=0, label="oracle", timeout=7200, boards_out=None, reached=False):
    """TLC explores layer R breadth-first from the seeds and prints one record per state; the
    harness replays every record against the real code.  Returns the harness summary."""
    seeds_path = write_ndjson(ctx.path(label + "_seeds.ndjson"), seed_recs)
    cfg = tlc.write_cfg("%s_%s_%d.cfg" % (label, ctx.prop, os.getpid()), ORACLE_CFG.format(
        ply=ply, text="TRUE" if text else "FALSE", attacks="TRUE" if attacks else "FALSE"))
    out = ctx.path(label + ".tlcout")
    r = ctx.run_tlc("Oracle_Positions", cfg, env={"SEEDS": seeds_path}, workers=16, out_path=out, timeout=timeout)
    os.unlink(cfg)
    if r.violated:
        raise ToolError("oracle generation stopped: %s\n%s" % (r.violated, r.tail))
    if r.nrecords != r.distinct:
        raise ToolError("oracle generation printed %d records for %d states" % (r.nrecords, r.distinct))
    hargs = ["replay", out, "--props", ",".join(props), "--threads", "16", "--game-sample", str(game_sample)]
    if boards_out:
        hargs += ["--boards-out", boards_out]
    if reached:
        hargs += ["--reached"]
    summ = harness(hargs, timeout=timeout)
    if summ["records"] != r.nrecords:
        raise ToolError("harness replayed %d of %d oracle records" % (summ["records"], r.nrecords))
    os.unlink(out)
    log("%s: B1 %s: %d oracle states (ply<=%d, %d seeds) in %.1fs; replay evaluations %s; mismatches %s" % (
        ctx.prop, label, r.nrecords, ply, len(seed_recs), r.wall, summ["evaluations"], summ["violations"]))
    return summ


def absorb_replay(ctx, summ, prop=None):
    """Fold a harness replay summary into the context for property `prop` (default ctx.prop)."""
    prop = prop or ctx.prop
    # every oracle state is a TLC-generated behaviour replayed into the implementation
    ctx.traces += summ.get("records", 0)
    ctx.evaluations += summ["evaluations"].get(prop, 0)
    ctx.nontrivial += summ.get("nontrivial", {}).get(prop, 0)
    n = 0
    for m in summ["mismatches"]:
        if m["prop"] != prop:
            continue
        n += 1
        ctx.violation(m["what"], {"binding": "B1 oracle replay", "fen": m["fen"], "pos": m["pos"], "detail": m["detail"]},
                      sig=classify(prop, m["what"], m.get("detail"), m.get("fen")))
    total = summ["violations"].get(prop, 0)
    if total > n:
        ctx.extra["b1_mismatches_total"] = ctx.extra.get("b1_mismatches_total", 0) + total
    return total


def classify(prop, what, detail, fen=None):
    """Signature fields used to match known findings precisely (never to hide other violations)."""
    sig = {}
    if fen:
        sig["fen"] = fen
    return sig


def split_file(path, shards, ctx, label):
    lines = open(path).read().splitlines()
    n = len(lines)
    shards = max(1, min(shards, (n + 199) // 200))
    parts = []
    per = (n + shards - 1) // shards
    for s in range(shards):
        chunk = lines[s * per:(s + 1) * per]
        if not chunk:
            continue
        p = ctx.path("%s_part%d.ndjson" % (label, s))
        with open(p, "w") as f:
            f.write("\n".join(chunk) + "\n")
        parts.append((p, s * per, len(chunk)))
    return parts


def validate_records(ctx, trace_path, shards=4, workers=4, label="records", timeout=3600, module="Trace_Records", cfg="Trace_Records.cfg"):
    """TLC validates every record the real code produced.  Returns (bad, skipped, nrecords):
    bad = list of (record, why, x)."""
    parts = split_file(trace_path, shards, ctx, label)
    results = []

    def one(part):
        p, off, n = part
        r = tlc.run(module, cfg, env={"TRACE": p}, workers=workers, want_records=True, timeout=timeout, heap="1500m", young="300m")
        return (part, r)

    with ThreadPoolExecutor(max_workers=len(parts)) as ex:
        for part, r in ex.map(one, parts):
            results.append((part, r))
    bad, skipped, total = [], 0, 0
    for (p, off, n), r in results:
        ctx.states += r.distinct
        ctx.transitions += r.generated
        ctx.tlc_runs.append({"module": module, "records": n, "distinct": r.distinct, "generated": r.generated, "wall_s": round(r.wall, 1)})
        if r.violated:
            raise ToolError("record validation stopped unexpectedly: %s\n%s" % (r.violated, r.tail))
        chunks = (n + 63) // 64
        if r.distinct != 1 + chunks + n:
            raise ToolError("record validation visited %d states, expected %d (records %d)" % (r.distinct, 1 + chunks + n, n))
        recs = read_ndjson(p)
        for x in r.records:
            if "skip" in x:
                skipped += 1
            elif "bad" in x:
                bad.append((recs[x["bad"] - 1], x["why"], x.get("x")))
        total += n
        os.unlink(p)
    log("%s: B2 %s: %d records validated by TLC, %d skipped (out of scope), %d rejected" % (ctx.prop, label, total, skipped, len(bad)))
    return bad, skipped, total


def absorb_records(ctx, bad, skipped, total, types=None, whys=None):
    """records TLC rejected become violations of ctx.prop when they are of the given types / reasons;
    anything else the specification rejects is behaviour outside the listed property: it is reported as
    an EXTENSION-FINDING (stderr + evidence), never as a violation of this property"""
    ctx.traces += total - skipped
    ctx.extra["b2_records"] = ctx.extra.get("b2_records", 0) + total
    ctx.extra["b2_skipped_out_of_scope"] = ctx.extra.get("b2_skipped_out_of_scope", 0) + skipped
    n = 0
    import fen as fenlib
    for rec, why, x in bad:
        f = fenlib.fen(rec["pos"]) if "pos" in rec and "b" in rec["pos"] else None
        if (types and rec.get("t") not in types) or (whys and why not in whys and rec.get("t") in whys.get("_restricted_types", ())):
            ext = ctx.extra.setdefault("extension_findings", [])
            if len(ext) < 20:
                ext.append({"why": why, "fen": f, "record_type": rec.get("t"), "spec_says": x})
            log("EXTENSION-FINDING (outside %s): %s %s" % (ctx.prop, why, f or ""))
            continue
        n += 1
        ctx.violation(why, {"binding": "B2 record validation", "fen": f, "record": rec, "spec_says": x}, sig=classify(ctx.prop, why, x, f))
    return n
