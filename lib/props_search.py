"""C07 C08 C09: the parallel alpha-beta search."""
import json
import os
import sys
from concurrent.futures import ThreadPoolExecutor

import tlc
import engines
import graph
import fen as fenlib
from common import ToolError, harness, load_seeds, seed_records, write_ndjson, read_ndjson, log

sys.setrecursionlimit(100000)

MC_SEARCH_CFG = """SPECIFICATION Spec
CONSTANTS
  Children <- ChildrenC
  PosKey <- PosKeyC
  Static <- StaticC
  MateBonus <- MateC
  Root = 0
  RootMax = TRUE
  Depth = 3
  Root2 = 9999
  Root2Max = TRUE
  KeyMode = "{mode}"
INVARIANTS ExactValue ExactTasks
PROPERTY Terminates
"""


def mc_search(ctx):
    """design level: every interleaving of the cache accesses of the abstract search; the key
    the property needs passes, the (hash, alpha, beta) key must fail"""
    cfg = tlc.write_cfg("mc_search_full_%d.cfg" % os.getpid(), MC_SEARCH_CFG.format(mode="full"))
    r = tlc.run("MC_Search", cfg, workers=4, heap="1g", young="200m", timeout=600)
    os.unlink(cfg)
    if r.violated:
        raise ToolError("MC_Search (full key) violates %s" % r.violated)
    ctx.states += r.distinct
    ctx.transitions += r.generated
    ctx.tlc_runs.append({"module": "MC_Search", "mode": "full", "distinct": r.distinct, "generated": r.generated})
    cfg = tlc.write_cfg("mc_search_window_%d.cfg" % os.getpid(), MC_SEARCH_CFG.format(mode="window"))
    n = tlc.run("MC_Search", cfg, workers=4, heap="1g", young="200m", timeout=600)
    os.unlink(cfg)
    if n.violated not in ("ExactTasks", "ExactValue"):
        raise ToolError("negative control failed: the (hash, alpha, beta) cache key was not rejected (%s)" % n.violated)
    ctx.extra["design_level"] = "MC_Search: all interleavings, key (hash, depth, side, alpha, beta): exact and terminating (%d states); key (hash, alpha, beta): %s violated" % (r.distinct, n.violated)
    # a family of random abstract games with transpositions at different depths / sides
    import searchgames
    games, st, gen, wfail = searchgames.run_family(5 if ctx.tier == "quick" else 60, ctx.seed)
    ctx.states += st
    ctx.transitions += gen
    ctx.extra["design_level_family"] = "%d random abstract games: full key exact under every interleaving (%d states); broken keys rejected on some of them: %s" % (games, st, wfail)
    # the locking discipline: no interleaving of the lock acquisitions deadlocks (both RwLock policies)
    for pol in ("fair", "writer-preferring"):
        cfg = tlc.write_cfg("searchlocks_%d.cfg" % os.getpid(), 'SPECIFICATION Spec\nCONSTANTS Tasks = {1, 2, 3}\n Rounds = 2\n Policy = "%s"\n Upgrade = FALSE\nINVARIANT Exclusion\nPROPERTY Terminates\nCHECK_DEADLOCK TRUE\n' % pol)
        r = tlc.run("SearchLocks", cfg, workers=4, heap="1g", young="200m", timeout=900)
        os.unlink(cfg)
        if r.violated:
            raise ToolError("SearchLocks (%s) violates %s" % (pol, r.violated))
        ctx.states += r.distinct
        ctx.transitions += r.generated
    cfg = tlc.write_cfg("searchlocks_neg_%d.cfg" % os.getpid(), 'SPECIFICATION Spec\nCONSTANTS Tasks = {1, 2, 3}\n Rounds = 2\n Policy = "fair"\n Upgrade = TRUE\nINVARIANT Exclusion\nCHECK_DEADLOCK TRUE\n')
    r = tlc.run("SearchLocks", cfg, workers=4, heap="1g", young="200m", timeout=900)
    os.unlink(cfg)
    if r.violated != "deadlock":
        raise ToolError("negative control failed: the read-to-write upgrade was not reported as a deadlock")
    ctx.extra["design_level_locks"] = "SearchLocks: 3 tasks x 2 node visits, fair and writer-preferring RwLock: no deadlock, mutual exclusion, termination; upgrade control deadlocks"


def c07(ctx):
    quick = ctx.tier == "quick"
    mc_search(ctx)
    # positions: the catalogue, plus terminal / single-move / in-check states of its 1-ply neighbourhood
    seeds = seed_records(load_seeds(), both_colours=True)
    sp = write_ndjson(ctx.path("seeds.ndjson"), seeds)
    cfg = tlc.write_cfg("c07_oracle_%d.cfg" % os.getpid(), engines.ORACLE_CFG.format(ply=1 if quick else 2, text="FALSE", attacks="FALSE"))
    r = ctx.run_tlc("Oracle_Positions", cfg, env={"SEEDS": sp}, workers=16, want_records=True)
    os.unlink(cfg)
    chosen, seen = [], set()
    counts = {}
    import random
    rnd = random.Random(ctx.seed)
    recs = r.records
    rnd.shuffle(recs)
    quota = {"checkmate": 10, "stalemate": 10, "forced-line": 8, "single-legal-move": 8, "check": 10, "ordinary": 12} if quick else {"checkmate": 60, "stalemate": 60, "forced-line": 40, "single-legal-move": 60, "check": 100, "ordinary": 400}
    # every catalogue position itself is a root (the catalogue exists because of the rule interactions in it)
    for rec in recs:
        if rec["ply"] == 0 and rec["ok"] and tuple(rec["k"]) not in seen:
            seen.add(tuple(rec["k"]))
            chosen.append(fenlib.from_poskey(rec["k"]))
    for rec in recs:
        tags = set(rec["tags"])
        cls = "checkmate" if "checkmate" in tags else "stalemate" if "stalemate" in tags else "forced-line" if "forced-line" in tags else "single-legal-move" if "single-legal-move" in tags else "check" if "check" in tags else "ordinary"
        if counts.get(cls, 0) >= quota[cls] or not rec["ok"]:
            continue
        k = tuple(rec["k"])
        if k in seen:
            continue
        seen.add(k)
        counts[cls] = counts.get(cls, 0) + 1
        chosen.append(fenlib.from_poskey(rec["k"]))
    for need in ("checkmate", "stalemate", "single-legal-move", "forced-line", "check"):
        if counts.get(need, 0) == 0:
            raise ToolError("vacuity guard: no %s position among the search roots" % need)
    # searches with a generator that has seen the whole history of a game (shuffles in which the same placement
    # recurs with fewer rights / an expired en-passant target): the answer must be a legal move of THIS position
    import props_engine
    sb, sev, sh, ssk = props_engine.run_traces(ctx, "scripts", 1, 0, 0, label="c07scripts")
    props_engine.absorb_bad(ctx, sb)
    ctx.evaluations += sev
    pp = write_ndjson(ctx.path("roots.ndjson"), chosen)
    out = ctx.path("search_basic.ndjson")
    # a search that takes the whole process down (stack overflow, abort) cannot be caught inside the
    # harness: the driver reports the case the harness had announced and goes on behind it
    from common import HarnessCrash
    skip, crashes, summ = 0, 0, None
    traces = []
    while summ is None:
        try:
            part = ctx.path("search_basic_%d.ndjson" % skip)
            summ = harness(["search-basic", pp, part, "--depths", "0,1,2,3" if quick else "0,1,2,3,4", "--pools", "1,2,4,16",
                            "--max-men-deep", 5 if quick else 12, "--skip", skip, "--trace-log"], timeout=7200)
            traces.append(part)
        except HarnessCrash as e:
            crashes += 1
            ctx.violation("the search took the whole process down (signal %d)" % e.signal,
                          {"binding": "harness process killed while searching", "fen": e.marker["fen"], "depth": e.marker["depth"], "threads": e.marker["threads"],
                           "half_move_clock": e.marker.get("hm"), "stderr": e.stderr}, sig={"ev": "Search", "kind": "abort"})
            skip = e.marker["index"] + 1
            if crashes >= 5:
                summ = {"events": 0, "histories": 0, "searches": 0}
    # validate whatever was recorded before / between crashes: only the last, complete file is used
    out = traces[-1] if traces else None
    if out is None:
        ctx.extra["root_classes"] = counts
        return
    rr = tlc.run("Trace_Engine", "Trace_Engine.cfg", env={"TRACE": out}, workers=1, want_records=True, stack="64m", heap="1500m", young="300m", timeout=3600)
    if rr.violated:
        raise ToolError("Trace_Engine model invariant failed: %s" % rr.violated)
    if rr.postcondition_failed or rr.distinct != summ["events"] + 1:
        raise ToolError("search trace not consumed completely (%d states, %d events)\n%s" % (rr.distinct, summ["events"], rr.tail))
    ctx.states += rr.distinct
    ctx.transitions += rr.generated
    lines = None
    for x in rr.records:
        if "bad" in x and x.get("ev") == "Search":
            if not set(x.get("diff", [])) & {"placement", "turn", "cr", "ep", "hm", "fm", "seen", "keyStable", "result", "failed"}:
                continue    # e.g. a key that is wrong before and after the call alike: C05's business, not C07's
            if lines is None:
                lines = open(out).read().splitlines()
            evt = json.loads(lines[x["bad"] - 1])
            posfen = fenlib.fen({"b": evt["obs"]["b"], "turn": evt["obs"]["turn"], "rights": evt["obs"]["cr"], "ep": evt["obs"]["ep"]})
            ctx.violation(x["why"], {"binding": "B2 Trace_Engine Search event", "fen": posfen, "depth": evt["depth"], "threads": evt["threads"], "result": evt["res"], "differs": x.get("diff"), "spec_says": x.get("x")},
                          sig={"ev": "Search", "kind": evt["res"].get("kind")})
    if summ.get("hung"):
        log("C07: a search did not return within the watchdog limit")
    ctx.traces += summ["histories"]
    ctx.evaluations += summ["searches"]
    ctx.nontrivial += sum(v for k, v in counts.items() if k != "ordinary")
    ctx.extra["root_classes"] = counts
    ctx.sample({"binding": "B2", "roots": counts, "first_root": fenlib.fen(chosen[0])})
    ctx.rule = ("roots: catalogue seeds and states of their neighbourhood classified by the spec (checkmated, stalemated, single legal move, in check, ordinary); depths 0..3(4), rayon pools 1/2/4/16; "
                "every alpha_beta_search call is a Search event validated by Trace_Engine: Ok(m) with m in Legal(pos) when a legal move exists and depth >= 1, NoAvailableMoves when none, DepthTooLow at depth 0, never a panic or a hang, "
                "and the caller's board projection identical before and after. distinct_nontrivial = terminal / single-move / in-check roots")


def fold_minimax(g, static, mate, key, d, memo):
    mk = (key, d)
    if mk in memo:
        return memo[mk]
    node = g.nodes[key]
    white = key[8] == 1
    if node["n"] == 0:
        if node["v"] == "checkmate":
            v = mate["white_mated"][d] if white else mate["black_mated"][d]
        else:
            v = mate["stalemate"][d]
    elif d == 0:
        v = static[key]
    else:
        if node["succ"] is None:
            raise ToolError("graph too shallow for minimax")
        vals = [fold_minimax(g, static, mate, s, d - 1, memo) for _, s in node["succ"]]
        v = max(vals) if white else min(vals)
    memo[mk] = v
    return v


def exact_batch(ctx, depth, roots, sequences, seq_len, max_extra, label, threads=4, family=None):
    out = ctx.path("exact_%s.ndjson" % label)
    summ = harness(["search-exact", out, "--seed", ctx.seed + depth, "--roots", roots, "--depth", depth, "--max-extra", max_extra,
                    "--sequences", sequences, "--seq-len", seq_len, "--threads", threads] + (["--family", family] if family else []), timeout=7200)
    searches = read_ndjson(out)
    # distinct roots -> seeds of the graph
    keys = {}
    for s in searches:
        k = tuple(fenlib.poskey(s["root"]))
        if k not in keys:
            keys[k] = len(keys)
    seed_recs = [fenlib.from_poskey(list(k)) for k in keys]
    if family == "kxk":
        # deep searches of three-man endgames: one position-deduplicated graph per root
        g = graph.Graph()
        for i, sr in enumerate(seed_recs):
            gi = graph.generate(ctx, [sr], depth, label="graph_%s_%d" % (label, i), by_position=True)
            for k, nd in gi.nodes.items():
                old = g.nodes.get(k)
                if old is None or (old["succ"] is None and nd["succ"] is not None):
                    g.nodes[k] = nd
            g.records += gi.records
            g.edges += gi.edges
    else:
        g = graph.generate(ctx, seed_recs, depth, label="graph_" + label)
    kp = ctx.path("keys_%s.ndjson" % label)
    with open(kp, "w") as f:
        for k in g.nodes:
            f.write(json.dumps(list(k)) + "\n")
    sp = ctx.path("static_%s.ndjson" % label)
    harness(["static-eval", kp, sp], timeout=3600)
    static, mate = {}, None
    with open(sp) as f:
        for line in f:
            r = json.loads(line)
            if "mate" in r:
                mate = r["mate"]
            else:
                static[tuple(r["k"])] = r["s"]
    memo = {}
    bad = 0
    for s in searches:
        k = tuple(fenlib.poskey(s["root"]))
        if k not in g.nodes:
            # the spec found the root inconsistent (pre-filter of the harness is only a heuristic)
            continue
        ctx.evaluations += 1
        ctx.traces += 1     # one real search compared with the fold of its TLC-generated graph
        node = g.nodes[k]
        if node["n"] == 0:
            continue
        want = fold_minimax(g, static, mate, k, depth, memo)
        res = s["res"]
        f = fenlib.fen(s["root"])
        if res["kind"] != "ok":
            ctx.violation("search did not answer on a root with legal moves", {"fen": f, "depth": depth, "context": s["context"], "result": res}, sig={"ctx": s["context"].split(":")[0]})
            bad += 1
            continue
        ctx.nontrivial += 1
        m = res["m"]
        mt = (m["k"], m["f"], m["t"], m["p"], m["c"])
        child = [sk for mv, sk in node["succ"] if mv == mt]
        if not child:
            ctx.violation("search returned a move that is not legal", {"fen": f, "depth": depth, "move": m}, sig={"ctx": "illegal"})
            bad += 1
            continue
        cv = fold_minimax(g, static, mate, child[0], depth - 1, memo)
        if s["score"] != want or cv != want:
            bad += 1
            ctx.violation("search value or move differs from exact fixed-depth minimax",
                          {"binding": "TLC state graph of the root + engine static evaluation, folded", "fen": f, "depth": depth, "context": s["context"],
                           "reported_score": s["score"], "minimax_value": want, "returned_move": m, "minimax_value_of_returned_move": cv},
                          sig={"ctx": s["context"].split(":")[0]})
    if len(ctx.samples) < 3 and searches:
        s = searches[0]
        ctx.sample({"binding": "B1 graph fold", "fen": fenlib.fen(s["root"]), "depth": depth, "engine": {"move": s["res"].get("m"), "score": s["score"]},
                    "minimax": fold_minimax(g, static, mate, tuple(fenlib.poskey(s["root"])), depth, memo) if tuple(fenlib.poskey(s["root"])) in g.nodes else None})
    terminal = sum(1 for n in g.nodes.values() if n["n"] == 0)
    ctx.extra["terminal_nodes_in_graphs"] = ctx.extra.get("terminal_nodes_in_graphs", 0) + terminal
    log("C08: %s: %d searches at depth %d compared with minimax over %d graph states (%d mate/stalemate nodes): %d differ" % (label, len(searches), depth, g.records, terminal, bad))
    return bad


def c08(ctx):
    quick = ctx.tier == "quick"
    mc_search(ctx)
    if quick:
        plan = [(3, 28, 10, 6, 4, "d3", None), (4, 8, 4, 4, 3, "d4", None), (2, 10, 10, 8, 3, "d2seq", None),
                # lone king against a few men: stalemates and mates within the horizon (leaf verdict scoring)
                (2, 40, 6, 3, 2, "bare2", "bare"), (3, 30, 6, 3, 2, "bare3", "bare"),
                # roots built backwards from stalemates / mates: the terminal position sits exactly on the horizon
                (1, 60, 0, 0, 2, "term1", "terminal"), (2, 60, 0, 0, 2, "term2", "terminal"), (3, 20, 0, 0, 2, "term3", "terminal"),
                # K+Q / K+R against the lone king, defender to move, depth 6: forced mates of different lengths
                # inside the horizon (quicker mate preferred, cut-offs at mate scores)
                (6, 5, 0, 0, 1, "kxk6", "kxk"),
                # pawn storms played on with ONE context: positions that differ only in the en-passant right
                (3, 8, 14, 8, 1, "storm3seq", "storm")]
    else:
        plan = [(3, 150, 30, 5, 5, "d3", None), (4, 80, 20, 4, 4, "d4", None), (2, 60, 20, 6, 12, "d2mid", None),
                (1, 300, 0, 0, 2, "bare1", "bare"), (2, 300, 40, 4, 3, "bare2", "bare"), (3, 200, 40, 4, 3, "bare3", "bare"), (4, 60, 10, 3, 2, "bare4", "bare"),
                (1, 400, 0, 0, 2, "term1", "terminal"), (2, 400, 0, 0, 2, "term2", "terminal"), (3, 300, 0, 0, 2, "term3", "terminal"), (4, 100, 0, 0, 2, "term4", "terminal"),
                (6, 12, 0, 0, 1, "kxk6", "kxk"), (7, 4, 0, 0, 1, "kxk7", "kxk"), (3, 30, 60, 10, 1, "storm3seq", "storm"), (4, 10, 20, 8, 1, "storm4seq", "storm")]
    with ThreadPoolExecutor(max_workers=3) as ex:
        list(ex.map(lambda a: exact_batch(ctx, a[0], a[1], a[2], a[3], a[4], a[5], family=a[6]), plan))
    # the cache accesses of games played on with one context (one worker: program order), validated by Trace_Search:
    # a hit must return an entry stored for the SAME position with the same remaining depth, side and window
    st = ctx.path("seqtrace.ndjson")
    ssum = harness(["search-seqtrace", st, "--seed", ctx.seed, "--sequences", 2 if quick else 10, "--seq-len", 6 if quick else 7, "--depth", 3], timeout=3600)
    flat = ctx.path("seqtrace_flat.ndjson")
    n, runs = flatten_schedules(st, flat)
    if n:
        r = tlc.run("Trace_Search", "Trace_Search.cfg", env={"TRACE": flat}, workers=1, want_records=True, heap="2g", young="400m", stack="64m", timeout=7200)
        if r.postcondition_failed or r.distinct != n + 1:
            raise ToolError("Trace_Search did not consume the sequence trace (%d states for %d events)\n%s" % (r.distinct, n, r.tail))
        ctx.states += r.distinct
        ctx.transitions += r.generated
        ctx.traces += runs
        for x in r.records:
            if "bad" in x:
                ctx.violation(x["why"], {"binding": "B2 cache accesses of successive searches with one context (hook H2), Trace_Search", "detail": x.get("x")}, sig={"kind": "trace"})
        ctx.extra["reused_context_searches_traced"] = runs
        ctx.extra["cache_events_validated"] = n
        log("C08: %d successive searches with one context: %d cache events validated by Trace_Search" % (runs, n))
    ctx.rule = ("roots: seeded random sparse positions (two kings + 1-5 men), half-move clock 0; search with a brand-new context, and sequences of successive searches of a game sharing ONE context "
                "(engine move, a reply, search again); reference: exact minimax folded bottom-up over the TLC state graph of each root (Oracle_Graph: nodes, legal edges, mate/stalemate verdicts) with the engine's own "
                "static evaluation at the leaves and its mate scores by remaining depth read black-box; compared: last_score = root value and value of the returned move's child = root value (any optimal move accepted). "
                "distinct_nontrivial = searches on roots with legal moves")
    ctx.assumptions += ["the arithmetic fold over the TLC graph is done by the driver", "leaves use evaluate::board_material_score (public, generator-free)"]


def flatten_schedules(path, out):
    """schedule records -> flat event list for Trace_Search"""
    n = 0
    runs = 0
    with open(out, "w") as fo:
        for line in open(path):
            r = json.loads(line)
            if r["t"] != "schedule":
                continue
            runs += 1
            rootmax = r["pos"]["turn"] == 1
            fo.write(json.dumps({"ev": "Begin", "rootmax": rootmax, "nroot": r["nroot"], "depth": r["depth"], "fresh": r.get("fresh", True)}) + "\n")
            n += 1
            ids = {}
            for e in r["events"]:
                if e["ev"] == "TaskBegin":
                    ids[(e["f"], e["t"], e["p"])] = e["task"]
                fo.write(json.dumps(e) + "\n")
                n += 1
            o = r["outcome"]
            if o["kind"] == "ok":
                m = o["m"]
                kinds = {0: 0, 2: 2, 3: 3, 4: 4, 5: 5}
                # hook promo code: 0 none, else 1 + Piece discriminant (Pawn=0,Knight=1,Bishop=2,Rook=3,Queen=4)
                promo = 0 if m["p"] == 0 else m["p"]
                task = ids.get((m["f"], m["t"], promo), -1)
                fo.write(json.dumps({"ev": "End", "kind": "ok", "score": o["score"], "task": task}) + "\n")
            else:
                fo.write(json.dumps({"ev": "End", "kind": o["kind"], "score": 0, "task": -1}) + "\n")
            n += 1
    return n, runs


def c09(ctx):
    quick = ctx.tier == "quick"
    mc_search(ctx)
    shards = 3 if quick else 6

    def one(i):
        out = ctx.path("sched_%d.ndjson" % i)
        summ = harness(["search-sched", out, "--seed", ctx.seed * 100 + i, "--positions", 4 if quick else 12, "--schedules", 9 if quick else 27,
                        "--depth", 3 + (i % 2), "--max-extra", 4 if i % 2 == 0 else 3, "--log-schedules", 3 if quick else 9]
                       # on some shards the code's log statements are live (as with RUST_LOG=trace): their arguments are evaluated
                       + (["--trace-log"] if i % 3 == 1 else []), timeout=14000)
        return i, out, summ

    # the scheduler runs use a 64-thread pool each: run the shards one after the other
    results = [one(i) for i in range(shards)]
    # native stress: richer positions, real pools of 1/4/16/48 threads, the code's log statements live
    # (their arguments are evaluated, as with RUST_LOG=trace); every run must give the 1-thread answer
    NATIVE = [{"fen": "r1bq1rk1/pp2bppp/2n1pn2/2pp4/3P1B2/2PBPN2/PP1N1PPP/R2QK2R w KQ -", "depth": 3},
              {"fen": "6k1/5ppp/8/8/8/8/8/R3R1K1 w - -", "depth": 4},
              {"fen": "r4rk1/1pp1qppp/p1np1n2/2b1p1B1/2B1P1b1/P1NP1N2/1PP1QPPP/R4RK1 w - -", "depth": 2 if quick else 3},
              {"fen": "8/2p5/3p4/KP5r/1R3p1k/8/4P1P1/8 w - -", "depth": 4},
              {"fen": "3r2k1/5ppp/8/8/8/8/5PPP/3RR1K1 b - -", "depth": 4},
              # double steps next to enemy pawns: transpositions that differ only in the en-passant target
              {"fen": "4k3/8/8/8/1p1p1p2/8/P1P1P1P1/4K3 w - -", "depth": 4},
              {"fen": "4k3/p1p1p1p1/8/1P1P1P2/8/8/8/4K3 b - -", "depth": 4},
              {"fen": "6k1/8/8/8/1p1p4/1k6/P1P1P3/4K2R w - -".replace("1k6", "8"), "depth": 4},
              {"fen": "2b5/8/8/8/p1pp4/8/1P2PP2/R3K3 w Q -", "depth": 4},
              # the same kind of tree a few plies before the move-count draw: every task's private clock must agree
              {"fen": "4k3/8/8/8/1p1p1p2/8/P1P1P1P1/4K3 w - -", "depth": 4, "hm": 95},
              {"fen": "4k3/p1p1p1p1/8/1P1P1P2/8/8/8/4K3 b - -", "depth": 4, "hm": 96},
              {"fen": "4k3/8/8/3pP3/3Pp3/8/2P2p2/4K3 w - -".replace("2P2p2", "2P2P2"), "depth": 4, "hm": 96},
              {"fen": "6k1/2p2p2/8/1P2P1P1/8/8/8/6K1 b - -", "depth": 4, "hm": 95},
              # rooks next to their home corners, the draw by move count inside the horizon: every route to a position
              # must arrive with the same clock
              {"fen": "k7/8/8/8/8/8/7K/6R1 w - -", "depth": 3, "hm": 97},
              {"fen": "k7/8/8/8/8/8/7K/6R1 w - -", "depth": 4, "hm": 96},
              {"fen": "1r6/k7/8/8/8/8/8/7K b - -", "depth": 3, "hm": 97},
              {"fen": "4k3/8/8/8/8/8/8/1R2K1R1 w - -", "depth": 3, "hm": 97},
              {"fen": "1r2k1r1/8/8/8/8/8/8/4K3 b - -", "depth": 3, "hm": 98}]
    np_ = ctx.path("native_cases.json")
    with open(np_, "w") as f:
        json.dump(NATIVE, f)
    nout = ctx.path("native.ndjson")
    nsumm = harness(["search-native", np_, nout, "--pools", "1,4,16" if quick else "1,4,16,48", "--reps", 2 if quick else 6, "--watchdog-secs", 90, "--trace-log"], timeout=7200)
    results.append((99, nout, nsumm))
    diverged = 0
    positions = 0
    for i, out, summ in results:
        ctx.evaluations += summ["searches"]
        ctx.extra["scheduling_steps"] = ctx.extra.get("scheduling_steps", 0) + summ["scheduling_steps"]
        for line in open(out):
            r = json.loads(line)
            if r["t"] != "outcomes":
                continue
            positions += 1
            outs = {}
            for o in r["outcomes"]:
                outs.setdefault(json.dumps(o["outcome"], sort_keys=True), []).append(o["schedule"])
            f = fenlib.fen(r["pos"])
            bad_kinds = [json.loads(k) for k in outs if json.loads(k)["kind"] in ("panic", "timeout")]
            if bad_kinds:
                ctx.violation("the search panicked or did not return under some schedule", {"fen": f, "depth": r["depth"], "outcomes": bad_kinds}, sig={"kind": "panic"})
            if len(outs) > 1:
                diverged += 1
                ctx.violation("the search returned different (move, score) answers under different schedules",
                              {"binding": "B3 controlled scheduler (hook H2)", "fen": f, "depth": r["depth"], "root_moves": r["nroot"],
                               "answers": [{"outcome": json.loads(k), "schedules": v} for k, v in outs.items()], "trace_seed": ctx.seed * 100 + i}, sig={"kind": "divergence"})
            ctx.nontrivial += len(r["outcomes"])
            if len(ctx.samples) < 2:
                ctx.sample({"binding": "B3", "fen": f, "depth": r["depth"], "schedules_run": len(r["outcomes"]), "distinct_answers": len(outs)})
    # validate the recorded linearised traces against the cache actions
    def val(chunk):
        n, runs, flat = chunk
        r = tlc.run("Trace_Search", "Trace_Search.cfg", env={"TRACE": flat}, workers=1, want_records=True, heap="2g", young="400m", stack="64m", timeout=7200)
        os.unlink(flat)
        return n, runs, r

    # every search starts with an empty cache: the traces are cut at search boundaries into pieces of at most
    # ~120 000 events, each validated by its own TLC (a trace of several 100 000 events exhausts TLC)
    chunks = []
    for i, out, _ in [r for r in results if r[0] != 99]:
        flat = ctx.path("flat_%d.ndjson" % i)
        n, runs = flatten_schedules(out, flat)
        part, pn, pr, k = None, 0, 0, 0
        with open(flat) as fi:
            for line in fi:
                if line.startswith('{"ev": "Begin"') and (part is None or pn > 120000):
                    if part is not None:
                        part.close()
                        chunks.append((pn, pr, pname))
                    pname = ctx.path("flat_%d_%d.ndjson" % (i, k))
                    part = open(pname, "w")
                    k += 1
                    pn = pr = 0
                if line.startswith('{"ev": "Begin"'):
                    pr += 1
                part.write(line)
                pn += 1
        if part is not None:
            part.close()
            chunks.append((pn, pr, pname))
        os.unlink(flat)
    with ThreadPoolExecutor(max_workers=6) as ex:
        vals = list(ex.map(val, chunks))
    diags = {}
    for n, runs, r in vals:
        if r.postcondition_failed or r.distinct != n + 1:
            raise ToolError("Trace_Search did not consume a trace (%d states for %d events)\n%s" % (r.distinct, n, r.tail))
        ctx.states += r.distinct
        ctx.transitions += r.generated
        ctx.traces += runs
        for x in r.records:
            if "bad" in x:
                ctx.violation(x["why"], {"binding": "B3 Trace_Search", "detail": x.get("x")}, sig={"kind": "trace"})
            elif "diag" in x:
                diags[x["why"]] = diags.get(x["why"], 0) + 1
    ctx.extra["cache_diagnostics_not_alarms"] = diags
    ctx.extra["positions"] = positions
    ctx.extra["positions_with_divergent_answers"] = diverged
    log("C09: %d positions, %d with schedule-dependent answers; cache diagnostics: %s" % (positions, diverged, diags))
    ctx.rule = ("each position (seeded random sparse, depth 3-4) is searched under 9 (quick) / 27 (thorough) controlled schedules -- 64-thread pool, every root-move task blocks at every cache read/write, "
                "a token is granted by seeded strategies: uniform random, sticky, lowest/highest task first, PCT-like priorities with change points, preemption-bounded round-robin -- plus native pools of 1/2/4/16 threads, "
                "each with a brand-new context; alarm: two runs return a different (move, score), or a run panics/hangs. The linearised traces of a third of the schedules are validated by Trace_Search "
                "(read follows its yield point atomically; answer selected from the task scores by the root rule). distinct_nontrivial = schedules executed")
    ctx.assumptions += ["interleavings are controlled at the hook points only; code between two hooks runs atomically under the token",
                        "the OneValuePerKey diagnostic is reported but is not an alarm by itself"]


PROPS = {"C07": c07, "C08": c08, "C09": c09}
