#!/bin/sh
# run every property's thorough tier once, one after the other; log exit codes and wall time
cd "$(dirname "$0")/.."
./setup.sh > /dev/null 2>&1
for p in ${THOROUGH_PROPS:-C01 C03 C13 C19 C06 C02 C11 C15 C07 C08 C09 C05}; do
  t0=$(date +%s)
  ./check $p --tier thorough > thorough_$p.log 2>&1
  rc=$?
  t1=$(date +%s)
  echo "THOROUGH $p exit=$rc wall=$((t1-t0))s $(grep -c '^VIOLATION' thorough_$p.log) violation lines" 
  tail -2 thorough_$p.log | cut -c1-300
done
