"""Two more front ends of the real binary, observed black-box and validated by Trace_Engine:

  * `chess play`  -- a human (this driver, typing coordinate pairs, naive notation and junk chosen from
    the printed board) against the engine: every typed line is a Cli event (accepted iff it names a
    legal move, played exactly; C14), every engine reply a Watch event (a legal move, the printed board
    its successor, clocks; C15), the loop's own verdict a WatchEnd event.
  * `chess determine-stockfish-elo` -- whole games through the real Stockfish bridge, the external
    engine being a stand-in process (harness fake-stockfish) found first on PATH: every coordinate
    string sent to it and every reply read back from it is a Bridge event (C19), the result booked
    for each finished game a BridgeEnd event.
"""
import json
import os
import random
import re
import select
import subprocess
import time

import tlc
import cli
from common import ToolError, harness, log, HARNESS_DIR

START = None


def start_obs():
    import fen as fenlib
    s = fenlib.parse("rnbqkbnr/pppppppp/8/8/8/8/PPPPPPPP/RNBQKBNR w KQkq -")
    return {"b": s["b"], "turn": 1, "cr": 15, "ep": 0, "hm": 0, "fm": 1, "key": [0, 0, 0, 0], "seen": 1,
            "last": {"k": "-", "f": 0, "t": 0, "p": 0, "c": 0}}


def validate(ctx, events, name):
    """events (without the tables line) -> TLC; returns the list of (event, why, detail) it rejected"""
    trace = ctx.path(name + "_trace.ndjson")
    tables = ctx.path(name + "_tables.ndjson")
    harness(["record-trace", tables, "--scenario", "scripts", "--seed", 1])
    with open(trace, "w") as fo:
        fo.write(open(tables).readline())
        for e in events:
            fo.write(json.dumps(e) + "\n")
    n = len(events)
    r = tlc.run("Trace_Engine", "Trace_Engine.cfg", env={"TRACE": trace}, workers=1, want_records=True, stack="64m", heap="1500m", young="300m", timeout=1800)
    if r.violated:
        raise ToolError("Trace_Engine model invariant failed on the %s trace: %s" % (name, r.violated))
    if r.postcondition_failed or r.distinct != n + 1:
        raise ToolError("%s trace not consumed completely (%d states, %d events)\n%s" % (name, r.distinct, n, r.tail))
    ctx.states += r.distinct
    ctx.transitions += r.generated
    bad, skipped = [], 0
    for x in r.records:
        if "bad" in x:
            bad.append((events[x["bad"] - 2], x["why"], x.get("x")))
        elif "skip" in x:
            skipped += 1
    return bad, skipped


# ------------------------------------------------------------------ chess play

def pseudo_moves(b, white_to_move, white_low):
    """candidate (from, to, promo?) triples by piece geometry only (0-based squares); legality is TLC's business"""
    def is_white(c):
        return (c <= 6) == white_low
    def kind(c):
        return (c - 1) % 6 + 1          # 1 pawn 2 knight 3 bishop 4 rook 5 queen 6 king
    out = []
    for s in range(64):
        c = b[s]
        if c == 0 or is_white(c) != white_to_move:
            continue
        f, r = s % 8, s // 8
        k = kind(c)
        def on(ff, rr):
            return 0 <= ff < 8 and 0 <= rr < 8
        if k == 1:
            d = 1 if white_to_move else -1
            if on(f, r + d) and b[(r + d) * 8 + f] == 0:
                out.append((s, (r + d) * 8 + f))
                if r == (1 if white_to_move else 6) and b[(r + 2 * d) * 8 + f] == 0:
                    out.append((s, (r + 2 * d) * 8 + f))
            for df in (-1, 1):
                if on(f + df, r + d):
                    t = (r + d) * 8 + f + df
                    if b[t] != 0 and is_white(b[t]) != white_to_move:
                        out.append((s, t))
                    elif b[t] == 0 and r == (4 if white_to_move else 3) and b[r * 8 + f + df] != 0 and kind(b[r * 8 + f + df]) == 1 \
                            and is_white(b[r * 8 + f + df]) != white_to_move:
                        out.append((s, t))           # an en passant attempt (legal only right after the double step)
            continue
        if k in (2, 6):
            steps = [(1, 2), (2, 1), (-1, 2), (-2, 1), (1, -2), (2, -1), (-1, -2), (-2, -1)] if k == 2 else \
                    [(1, 0), (-1, 0), (0, 1), (0, -1), (1, 1), (1, -1), (-1, 1), (-1, -1)]
            for df, dr in steps:
                if on(f + df, r + dr):
                    t = (r + dr) * 8 + f + df
                    if b[t] == 0 or is_white(b[t]) != white_to_move:
                        out.append((s, t))
            if k == 6 and f == 4 and r == (0 if white_to_move else 7):
                if b[s + 1] == 0 and b[s + 2] == 0 and b[s + 3] != 0 and kind(b[s + 3]) == 4:
                    out.append((s, s + 2))           # a castling attempt (legal only with the right, not through check)
                if b[s - 1] == 0 and b[s - 2] == 0 and b[s - 3] == 0 and b[s - 4] != 0 and kind(b[s - 4]) == 4:
                    out.append((s, s - 2))
            continue
        dirs = []
        if k in (3, 5):
            dirs += [(1, 1), (1, -1), (-1, 1), (-1, -1)]
        if k in (4, 5):
            dirs += [(1, 0), (-1, 0), (0, 1), (0, -1)]
        for df, dr in dirs:
            ff, rr = f + df, r + dr
            while on(ff, rr):
                t = rr * 8 + ff
                if b[t] == 0:
                    out.append((s, t))
                else:
                    if is_white(b[t]) != white_to_move:
                        out.append((s, t))
                    break
                ff, rr = ff + df, rr + dr
    return out


def sqname(s):
    return "abcdefgh"[s % 8] + str(s // 8 + 1)


def naive_label(b, mv, rnd):
    """notation without disambiguation or check suffix: exact for many moves, a near miss for the rest"""
    s, t = mv
    k = (b[s] - 1) % 6 + 1
    cap = b[t] != 0
    if k == 1:
        if s % 8 != t % 8:
            lab = "abcdefgh"[s % 8] + "x" + sqname(t)
        else:
            lab = sqname(t)
        if t // 8 in (0, 7):
            lab += "=" + rnd.choice("QRBN")
        return lab
    if k == 6 and abs(s - t) == 2:
        return "O-O" if t > s else "O-O-O"
    return " NBRQK"[k - 1] + ("x" if cap else "") + sqname(t)


def play_session(binary, colour, seconds, rnd):
    """returns (events, typed, accepted, engine_moves, verdict)"""
    p = subprocess.Popen([binary, "play", "--depth", "1", "--color", colour], stdin=subprocess.PIPE, stdout=subprocess.PIPE, stderr=subprocess.STDOUT)
    buf = ""
    human_white = colour == "white"

    def read_until(mark, pred, limit):
        nonlocal buf
        t0 = time.time()
        while time.time() - t0 < limit:
            if pred(buf[mark:]):
                return True
            r, _, _ = select.select([p.stdout], [], [], 0.2)
            if r:
                chunk = os.read(p.stdout.fileno(), 65536)
                if not chunk:
                    return pred(buf[mark:])
                buf += chunk.decode("utf-8", "replace")
                if len(buf) - mark > 2000000:
                    return True          # flooding (an error repeated for ever)
            elif p.poll() is not None:
                return pred(buf[mark:])
        return False

    def over(t):
        return "checkmate!" in t or "stalemate!" in t

    obs = start_obs()
    events = [{"ev": "CliReset", "obs": obs}]
    cur_b, cur_turn = list(obs["b"]), 1
    white_low = cur_b[4] <= 6
    typed = accepted = engine_moves = 0
    verdict = None
    t_end = time.time() + seconds
    # the first prompt; with the engine to move first, its move and a second prompt follow
    need = 1 if human_white else 2
    ok = read_until(0, lambda t: t.count("Enter your move:") >= need or over(t) or "error:" in t, 90)
    if not ok:
        p.kill()
        raise ToolError("chess play did not reach its first prompt:\n" + buf[-400:])

    def absorb_engine_turns(text):
        nonlocal cur_b, cur_turn, engine_moves
        turns, _ = cli.parse_watch(text)
        for t in turns:
            events.append({"ev": "Watch", "b": t["b"], "last": t["last"], "mover": t["mover"], "hm": t["hm"], "obs": obs})
            cur_b, cur_turn = t["b"], 1 - t["mover"]
            engine_moves += 1

    if not human_white:
        absorb_engine_turns(buf)
    stop = False
    while time.time() < t_end and not stop:
        if over(buf):
            break
        cands = pseudo_moves(cur_b, cur_turn == 1, white_low)
        x = rnd.random()
        if not cands or x < 0.12:
            line = rnd.choice(cli.JUNK)
        else:
            mv = rnd.choice(cands)
            if x < 0.55:
                line = sqname(mv[0]) + sqname(mv[1])
            else:
                line = naive_label(cur_b, mv, rnd)
        mark = len(buf)
        try:
            p.stdin.write((line + "\n").encode())
            p.stdin.flush()
        except BrokenPipeError:
            break
        typed += 1
        got = read_until(mark, lambda t: "invalid input" in t or "error:" in t or "Enter your move:" in t or over(t), 120)
        chunk = buf[mark:]
        if not got:
            # neither a refusal nor a prompt within the limit: on a loaded machine this cannot be told from a
            # slow engine, and hangs are C07's business -- a tool problem here, never an alarm
            p.kill()
            p.wait()
            if p.returncode is not None and ("panicked" in chunk or "overflow" in chunk):
                events.append({"ev": "WatchEnd", "res": "error", "msg": "the program died after a typed line: " + chunk[-300:], "obs": obs})
                break
            raise ToolError("chess play did not react to a typed line within 120 s:\n" + chunk[-300:])
        turns, _ = cli.parse_watch(chunk)
        ev = {"ev": "Cli", "s": line, "chars": list(line), "obs": obs, "kind": "label", "f": 0, "t": 0}
        if re.match(r"^[a-h][1-8][a-h][1-8]$", line):
            ev["kind"] = "coord"
            ev["f"] = (ord(line[0]) - 97) + (int(line[1]) - 1) * 8 + 1
            ev["t"] = (ord(line[2]) - 97) + (int(line[3]) - 1) * 8 + 1
        if not turns:
            ev["react"] = "invalid" if "invalid input" in chunk else "error"
            ev["b"], ev["turn"] = cur_b, cur_turn
            events.append(ev)
            continue
        # accepted: the first board printed is the position after the typed move
        h = turns[0]
        ev["react"] = "accepted"
        ev["b"], ev["turn"] = h["b"], 1 - h["mover"]
        events.append(ev)
        accepted += 1
        cur_b, cur_turn = h["b"], 1 - h["mover"]
        for t in turns[1:]:
            events.append({"ev": "Watch", "b": t["b"], "last": t["last"], "mover": t["mover"], "hm": t["hm"], "obs": obs})
            cur_b, cur_turn = t["b"], 1 - t["mover"]
            engine_moves += 1
        if over(chunk):
            break
        if "error:" in chunk and len(turns) < 2:
            # the engine could not move
            m = re.search(r"error: .*", chunk)
            events.append({"ev": "WatchEnd", "res": "error", "msg": m.group(0) if m else "error", "obs": obs})
            stop = True
    p.kill()
    p.wait()
    for word in ("checkmate!", "stalemate!"):
        if word in buf:
            verdict = word[:-1]
            events.append({"ev": "WatchEnd", "res": verdict, "msg": "", "obs": obs})
    return events, typed, accepted, engine_moves, verdict


CLI_WHYS_PREFIX = ("a typed line", "a malformed line", "a well-formed line", "a line naming", "an accepted line")


def play_check(ctx, seconds):
    """ctx.prop C14: the typed lines decide; C15: the engine's replies decide"""
    binary = cli.build_binary()
    rnd = random.Random(ctx.seed * 7919 + 17)
    tot_typed = tot_acc = tot_eng = 0
    t_all = time.time()
    sessions = []
    # games end early when the random "human" gets mated: new games are started until the time is used
    while True:
        for colour in ("white", "black"):
            left = seconds - (time.time() - t_all)
            if sessions and left < 15:
                break
            sessions.append((colour,) + play_session(binary, colour, max(15.0, min(seconds / 2.0, left)), rnd))
        if time.time() - t_all > seconds - 15 or len(sessions) >= 40:
            break
    for si, (colour, events, typed, accepted, engine_moves, verdict) in enumerate(sessions):
        bad, _ = validate(ctx, events, "play_%s_%d" % (colour, si))
        ctx.traces += 1
        for ev, why, x in bad:
            is_cli = ev["ev"] == "Cli"
            mine = (ctx.prop == "C14" and is_cli) or (ctx.prop == "C15" and not is_cli)
            payload = {"binding": "B2 command-line session (chess play --color %s over stdin), Trace_Engine %s event" % (colour, ev["ev"]),
                       "typed": ev.get("s"), "printed_move": ev.get("last"), "reaction": ev.get("react"), "detail": x}
            if mine:
                ctx.violation(why, payload, sig={"ev": ev["ev"], "typed": ev.get("s")})
            else:
                ext = ctx.extra.setdefault("extension_findings", [])
                if len(ext) < 20:
                    ext.append({"why": why, "event": ev["ev"], "typed": ev.get("s"), "spec_says": x})
                log("EXTENSION-FINDING (outside %s): chess play: %s" % (ctx.prop, why))
        tot_typed += typed
        tot_acc += accepted
        tot_eng += engine_moves
        log("%s: chess play --color %s: %d lines typed (%d accepted), %d engine replies, validated by TLC%s" % (
            ctx.prop, colour, typed, accepted, engine_moves, (", ended in " + verdict) if verdict else ""))
    ctx.evaluations += tot_typed + tot_eng
    ctx.extra["play_lines_typed"] = tot_typed
    ctx.extra["play_lines_accepted"] = tot_acc
    ctx.extra["play_engine_replies"] = tot_eng
    if not ctx.viol and (tot_acc < 2 or tot_eng < 2):
        raise ToolError("vacuity guard: chess play sessions saw only %d accepted lines and %d engine replies" % (tot_acc, tot_eng))


# ------------------------------------------------------------------ the Stockfish bridge

def split_log(path):
    """games from the stand-in's log: each a list of coordinate strings in game order, plus flags"""
    games = []
    cur = None
    err = None
    if not os.path.exists(path):
        return games, "the stand-in was never started"
    for l in open(path):
        try:
            e = json.loads(l)
        except ValueError:
            continue
        if "pos" in e:
            mv = e["pos"]
            if cur is None or len(mv) < len(cur["moves"]) or mv[:len(cur["moves"])] != cur["moves"]:
                cur = {"moves": [], "sent": set(), "replied": set()}
                games.append(cur)
            # entries of the received list beyond what is known were sent by the engine side
            for i in range(len(cur["moves"]), len(mv)):
                cur["sent"].add(i)
            cur["moves"] = list(mv)
        elif "reply" in e and cur is not None:
            cur["replied"].add(len(cur["moves"]))
            cur["moves"] = cur["moves"] + [e["reply"]]
        elif "err" in e:
            err = e["err"]
    return games, err


def bridge_check(ctx, seconds):
    binary = cli.build_binary()
    d = ctx.path("fakesf")
    os.makedirs(d, exist_ok=True)
    script = os.path.join(d, "stockfish")
    with open(script, "w") as f:
        f.write("#!/bin/sh\nexec %s fake-stockfish\n" % os.path.join(HARNESS_DIR, "target", "release", "harness"))
    os.chmod(script, 0o755)
    logp = os.path.join(d, "log.ndjson")
    env = dict(os.environ)
    env["PATH"] = d + os.pathsep + env.get("PATH", "")
    env["FAKE_SF_LOG"] = logp
    env["FAKE_SF_SEED"] = str(ctx.seed + 3)
    p = subprocess.Popen([binary, "determine-stockfish-elo", "--depth", "1", "--starting-elo", "1000"], stdin=subprocess.DEVNULL,
                         stdout=subprocess.PIPE, stderr=subprocess.STDOUT, env=env, start_new_session=True)
    buf = b""
    t0 = time.time()
    while time.time() - t0 < seconds:
        r, _, _ = select.select([p.stdout], [], [], 0.5)
        if r:
            chunk = os.read(p.stdout.fileno(), 65536)
            if not chunk:
                break
            buf += chunk
            if len(buf) > 50000000:
                break
        elif p.poll() is not None:
            break
    crashed = p.poll() is not None
    import signal
    try:
        os.killpg(p.pid, signal.SIGKILL)      # the program and the stand-in it started (own session)
    except ProcessLookupError:
        pass
    p.wait()
    text = buf.decode("utf-8", "replace")
    if "Stockfish not found" in text:
        raise ToolError("the stand-in external engine was not found on PATH")
    games, err = split_log(logp)
    # the screen: game segments are separated by the progress block printed after each finished game
    segs = text.split("Determining Stockfish ELO")
    obs = start_obs()
    events = []
    nb_engine = nb_reply = finished = 0
    prev_tot = (0, 0, 0)
    for gi, seg in enumerate(segs):
        # segment gi holds (the progress block of game gi-1 and) the turns of game gi
        if gi > 0:
            m = re.search(r"Wins: (\d+)\s+Losses: (\d+)\s+Draws: (\d+)", seg)
            if m and events:
                tot = tuple(int(x) for x in m.groups())
                delta = tuple(a - b for a, b in zip(tot, prev_tot))
                prev_tot = tot
                res = {(1, 0, 0): "win", (0, 1, 0): "loss", (0, 0, 1): "draw"}.get(delta, "none")
                events.append({"ev": "BridgeEnd", "res": res, "engine": last_engine, "obs": obs})
                finished += 1
        if gi >= len(games):
            break
        turns, _ = cli.parse_watch(seg)
        if not turns:
            continue
        m = re.search(r"\* Engine color: (white|black)", seg)
        if not m:
            continue
        last_engine = 1 if m.group(1) == "white" else 0
        g = games[gi]
        events.append({"ev": "CliReset", "obs": obs})
        for i, t in enumerate(turns):
            by = "engine" if t["mover"] == last_engine else "stockfish"
            u = g["moves"][i] if i < len(g["moves"]) else ""
            if by == "stockfish" and u == "":
                break
            if by == "stockfish" and i not in g["replied"]:
                raise ToolError("bridge: screen and stand-in log disagree about who moved at ply %d of game %d" % (i + 1, gi + 1))
            events.append({"ev": "Bridge", "by": by, "u": u, "b": t["b"], "last": t["last"], "mover": t["mover"], "hm": t["hm"], "obs": obs})
            if by == "engine":
                nb_engine += 1
            else:
                nb_reply += 1
    if crashed and "Final ELO determination" not in text:
        # the program ended by itself: a panic in the bridge (e.g. on a reply it could not read back)
        tail = text[-600:]
        m = re.search(r"panicked at[^\n]*\n?[^\n]*", text)
        ctx.violation("the program died in a game against the external engine", {"binding": "B2 chess determine-stockfish-elo with a stand-in engine", "tail": (m.group(0) if m else tail)[-400:],
                                                                               "last_reply": games[-1]["moves"][-1] if games and games[-1]["moves"] else None},
                      sig={"ev": "Bridge"})
    if err and not ctx.viol:
        log("%s: bridge: the stand-in stopped: %s" % (ctx.prop, err))
    if events:
        bad, skipped = validate(ctx, events, "bridge")
        for ev, why, x in bad:
            mine = ev["ev"] == "Bridge" and ("external engine" in why)
            payload = {"binding": "B2 chess determine-stockfish-elo with a stand-in engine, Trace_Engine %s event" % ev["ev"],
                       "by": ev.get("by"), "coordinate_string": ev.get("u"), "printed_move": ev.get("last"), "detail": x}
            if mine:
                ctx.violation(why, payload, sig={"ev": "Bridge", "u": ev.get("u")})
            else:
                ext = ctx.extra.setdefault("extension_findings", [])
                if len(ext) < 20:
                    ext.append({"why": why, "event": ev["ev"], "spec_says": x})
                log("EXTENSION-FINDING (outside %s): stockfish bridge: %s %s" % (ctx.prop, why, json.dumps(x)[:200]))
        ctx.traces += 1
    ctx.evaluations += nb_engine + nb_reply
    ctx.extra["bridge_engine_moves_sent"] = nb_engine
    ctx.extra["bridge_replies_read_back"] = nb_reply
    ctx.extra["bridge_games_finished"] = finished
    if not ctx.viol and (nb_engine < 3 or nb_reply < 3):
        raise ToolError("vacuity guard: the bridge session carried only %d engine moves and %d replies\n%s" % (nb_engine, nb_reply, text[-300:]))
    log("%s: stockfish bridge: %d engine moves sent, %d replies read back, %d games finished, validated by TLC" % (ctx.prop, nb_engine, nb_reply, finished))
