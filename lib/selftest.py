"""./check selftest : checks of the machinery itself (not of codyjk/chess).
 1. layer R reproduces the published perft table (path counts over the TLC state graph)
 2. negative controls: broken designs are rejected by the design-level models
 3. the binding is real: a recorded trace with one corrupted field is rejected, the original accepted
 4. vacuity: every action of Trace_Engine that a quick run should exercise is taken (TLC -coverage)
"""
import json
import os
import sys

import common
import tlc
import graph
import props_engine
import props_misc
import props_search


def main(args):
    ctx = common.Ctx("selftest", "quick", 1)
    ok = True
    try:
        common.ensure_harness()
        # 1 ---------------------------------------------------------------
        seeds = [s for s in common.load_seeds() if s.get("perft")]
        for s in seeds:
            d = min(len(s["perft"]), 3 if s["name"] != "start" else 4)
            g = graph.generate(ctx, common.seed_records([s]), d - 1, label="perft_" + s["name"])
            for k in range(1, d + 1):
                got = graph.perft(g, g.roots[1], k)
                flag = "ok" if got == s["perft"][k - 1] else "MISMATCH"
                if flag != "ok":
                    ok = False
                print("perft %-10s ply %d: spec %d published %d %s" % (s["name"], k, got, s["perft"][k - 1], flag))
        # 2 ---------------------------------------------------------------
        r = props_engine.mc_engine(ctx, 3, 1, props_engine.MC_SEEDS_QUICK, keymode="accumulate", expect_violation=True)
        print("negative control KeyMode=accumulate :", r.violated)
        ok &= r.violated == "KeyInvariant"
        r = props_misc.mc_gencache(ctx, "accumulate")
        print("negative control MC_GenCache accumulate :", r.violated)
        ok &= r.violated == "CacheCoherent"
        r = props_misc.mc_gencache(ctx, "retire", sigmode="placement")
        print("negative control MC_GenCache placement-only cache index :", r.violated)
        ok &= r.violated == "CacheCoherent"
        props_search.mc_search(ctx)
        print("negative control MC_Search window key :", ctx.extra.get("design_level"))
        # 3 ---------------------------------------------------------------
        out = ctx.path("bind.ndjson")
        common.harness(["record-trace", out, "--scenario", "walk", "--seed", 7, "--games", 2, "--plies", 60])
        r = tlc.run("Trace_Engine", "Trace_Engine.cfg", env={"TRACE": out}, workers=1, want_records=True, stack="64m")
        nbad = sum(1 for x in r.records if "bad" in x)
        print("binding: original trace: %d events, %d rejected" % (r.distinct - 1, nbad))
        ok &= nbad == 0
        cov = r.coverage
        lines = open(out).read().splitlines()
        import random
        rnd = random.Random(1)
        for field, mut in (("hm", lambda o: o.__setitem__("hm", o["hm"] + 1)), ("b", lambda o: o["b"].__setitem__(27, 5 if o["b"][27] != 5 else 0)),
                           ("key", lambda o: o["key"].__setitem__(3, (o["key"][3] + 1) % 65536)), ("cr", lambda o: o.__setitem__("cr", o["cr"] ^ 8))):
            idx = rnd.randrange(5, len(lines) - 5)
            e = json.loads(lines[idx])
            mut(e["obs"])
            mutated = lines[:idx] + [json.dumps(e)] + lines[idx + 1:]
            mp = ctx.path("bind_mut.ndjson")
            open(mp, "w").write("\n".join(mutated) + "\n")
            r2 = tlc.run("Trace_Engine", "Trace_Engine.cfg", env={"TRACE": mp}, workers=1, want_records=True, stack="64m")
            bads = [x for x in r2.records if "bad" in x]
            hit = any(x["bad"] == idx + 1 for x in bads)
            print("binding: corrupting %-3s of event %d -> rejected at that event: %s (%d reports)" % (field, idx + 1, hit, len(bads)))
            ok &= hit
        # dropping one event (a missing hook) must be noticed as well
        idx = next(i for i, l in enumerate(lines) if '"ev":"Apply"' in l and i > 10)
        mp = ctx.path("bind_drop.ndjson")
        open(mp, "w").write("\n".join(lines[:idx] + lines[idx + 1:]) + "\n")
        r3 = tlc.run("Trace_Engine", "Trace_Engine.cfg", env={"TRACE": mp}, workers=1, want_records=True, stack="64m")
        n3 = sum(1 for x in r3.records if "bad" in x or "skip" in x)
        print("binding: dropping the Apply event at line %d -> %d reports" % (idx + 1, n3))
        ok &= n3 > 0
        # 4 ---------------------------------------------------------------
        # every consumed event is exactly one action of Trace_Engine (the trace was consumed completely),
        # so the per-kind event counts are the per-action counts
        kinds = {}
        for l in lines[1:]:
            k = json.loads(l)["ev"]
            kinds[k] = kinds.get(k, 0) + 1
        for a in ["Reset", "Apply", "Undo", "Toggle", "Query"]:
            print("action T%-7s taken %d times" % (a, kinds.get(a, 0)))
            ok &= kinds.get(a, 0) > 0
    except (common.ToolError, tlc.TlcError) as e:
        print("TOOL-ERROR selftest: %s" % e, file=sys.stderr)
        ctx.cleanup()
        return 2
    ctx.cleanup()
    print("SELFTEST", "PASSED" if ok else "FAILED")
    return 0 if ok else 1
