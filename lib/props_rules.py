"""C01 C03 C06 C13 C19: rule-level properties decided by oracle replay (B1) and record validation (B2)."""
import json
import os

from common import ToolError, harness, load_seeds, seed_records, log
import engines

MOVE_KINDS = ["quiet", "capture", "double", "ep", "O-O", "O-O-O",
              "promoQ", "promoR", "promoB", "promoN", "promoxQ", "promoxR", "promoxB", "promoxN"]
ALL_KIND_TAGS = ["%s:%s" % (k, c) for k in MOVE_KINDS for c in "wb"]
RULE_TAGS = ["check", "double-check", "checkmate", "stalemate", "single-legal-move", "castle-out-of-check",
             "castle-transit-attacked", "castle-into-check", "castle-b-file-attacked", "castle-rook-attacked",
             "ep-pinned", "promotion-in-check", "home-rook-captured", "promotion-captures-home-rook"]
LIKE_TAGS = ["like-pieces-diff-file-rank", "like-pieces-same-file", "like-pieces-same-rank"]


def sparse_seed_records(max_men=10):
    out = []
    for s in seed_records(load_seeds(), both_colours=True):
        if sum(1 for x in s["b"] if x) <= max_men:
            out.append(s)
    return out


def text_oracle(ctx, prop, quick, game_sample=0):
    """oracle with SAN / UCI / effects: the whole catalogue to ply 2; thorough adds ply 3 from the sparse seeds"""
    seeds = seed_records(seeds_for(ctx.tier), both_colours=True)
    summ = engines.oracle_replay(ctx, seeds, 2, [prop], text=True, label="positions", game_sample=game_sample)
    engines.absorb_replay(ctx, summ)
    if not quick:
        s3 = engines.oracle_replay(ctx, sparse_seed_records(), 3, [prop], text=True, label="sparse3", game_sample=game_sample)
        engines.absorb_replay(ctx, s3)
        for k, v in s3["tags"].items():
            summ["tags"][k] = summ["tags"].get(k, 0) + v
    return summ


def ep_geometry_family():
    """every (capturing-pawn square, en-passant target) pair on the neighbouring ranks, both colours: the
    shifts and file masks of en-passant generation (no wrap-around across the a/h files, also not from the
    target's own rank)"""
    out = []
    for white in (True, False):
        for f in range(8):
            ep = (5 * 8 + f + 1) if white else (2 * 8 + f + 1)           # target on rank 6 / rank 3
            victim = ep - 8 if white else ep + 8                          # the pawn that has just double-stepped
            for r in ((3, 4, 5) if white else (2, 3, 4)):
                for pf in range(8):
                    sq = r * 8 + pf + 1
                    if sq in (ep, victim):
                        continue
                    b = [0] * 64
                    b[4] = 6        # Ke1
                    b[60] = 12      # Ke8
                    b[victim - 1] = 7 if white else 1
                    b[sq - 1] = 1 if white else 7
                    out.append({"b": b, "turn": 1 if white else 0, "rights": 0, "ep": ep, "name": "ep-geometry"})
    return out


def seeds_for(tier, names=None):
    s = load_seeds()
    if names:
        s = [x for x in s if x["name"] in names]
    return s


def b2_games(ctx, types, games, plies, setups, heavy=1, shards=4, label="games", max_extra=10):
    out = ctx.path(label + ".ndjson")
    seeds_path = ctx.path(label + "_seeds.ndjson")
    from common import write_ndjson
    write_ndjson(seeds_path, seed_records(load_seeds()))
    summ = harness(["record-games", out, "--seed", ctx.seed, "--games", games, "--plies", plies, "--setups", setups,
                    "--types", ",".join(types), "--heavy-one-in", heavy, "--seeds", seeds_path, "--max-extra", max_extra])
    bad, skipped, total = engines.validate_records(ctx, out, shards=shards, workers=4, label=label)
    n = engines.absorb_records(ctx, bad, skipped, total)
    for line in open(out):
        ctx.sample({"binding": "B2", "record": json.loads(line)})
        break
    return summ, n


def c01(ctx):
    quick = ctx.tier == "quick"
    seeds = seed_records(seeds_for(ctx.tier), both_colours=True)
    ro = ctx.path("reached.ndjson")
    summ = engines.oracle_replay(ctx, seeds, 2, ["C01"], label="positions", boards_out=ro, reached=True)
    engines.absorb_replay(ctx, summ)
    # "reachable by legal play": the boards the CODE produces by making a legal move that touches castling
    # rights or the en-passant target, with the moves a fresh generator returns there, against Legal(spec successor)
    rb, rsk, rtot = engines.validate_records(ctx, ro, shards=8, workers=2, label="reached")
    engines.absorb_records(ctx, rb, rsk, rtot, types={"moves", "panic"})
    ctx.extra["positions_reached_by_the_codes_own_moves"] = rtot
    # histories with undos: the code's move lists along walks (undo bursts, queries in between), judged against
    # the position the history truly leads to (the model is NOT resynchronised with the code's board here)
    import props_engine
    hb, hev, hh, hsk = props_engine.run_traces(ctx, "walk", 8, 4 if quick else 20, 160 if quick else 300, tlc_env={"RESYNC": "0"}, label="c01walk")
    props_engine.absorb_bad(ctx, hb)
    sb, sev, sh, ssk = props_engine.run_traces(ctx, "scripts", 1, 0, 0, tlc_env={"RESYNC": "0"}, label="c01scripts")
    props_engine.absorb_bad(ctx, sb)
    hev += sev
    ctx.evaluations += hev
    ctx.extra["history_events_validated"] = hev
    geo = engines.oracle_replay(ctx, ep_geometry_family(), 0, ["C01"], label="epgeometry")
    engines.absorb_replay(ctx, geo)
    ctx.extra["ep_geometry_positions"] = geo["records"]
    if not quick:
        s3 = engines.oracle_replay(ctx, sparse_seed_records(16), 3, ["C01"], label="sparse3")
        engines.absorb_replay(ctx, s3)
    tags = summ["tags"]
    ctx.require_tags(tags, ALL_KIND_TAGS + RULE_TAGS)
    if not quick:
        start = [s for s in seed_records(seeds_for(ctx.tier, ["start"]))]
        s2 = engines.oracle_replay(ctx, start, 4, ["C01"], label="start4")
        engines.absorb_replay(ctx, s2)
    b2_games(ctx, ["moves"], 30 if quick else 600, 150, 2500 if quick else 60000, shards=4 if quick else 8)
    ctx.extra["tags"] = {t: tags.get(t, 0) for t in ALL_KIND_TAGS + RULE_TAGS}
    ctx.sample({"binding": "B1", "what": "oracle position replayed", "tags_seen": len(tags)})
    ctx.rule = ("B1: every state of TLC's breadth-first exploration of layer R from the seed catalogue (both colours to move where consistent); "
                "B1': after every legal move touching castling rights or the en-passant target, made by the CODE, the code's move list on the resulting board against Legal(spec successor) (Trace_Records); "
                "B2: positions of seeded random games and random consistent set-ups with the code's move list, validated by TLC against Legal(pos). "
                "distinct_nontrivial = B1 positions with more than one legal move")
    ctx.assumptions += ["layer R (Rules.tla) transcribes the Laws; self-tested against the published perft table (selftest)",
                        "positions are set up through Board::put / set_turn / lose_castle_rights / push_en_passant_target"]


def c03(ctx):
    quick = ctx.tier == "quick"
    seeds = seed_records(seeds_for(ctx.tier), both_colours=True)
    summ = engines.oracle_replay(ctx, seeds, 2, ["C03"], label="positions")
    engines.absorb_replay(ctx, summ)
    if not quick:
        s3 = engines.oracle_replay(ctx, sparse_seed_records(16), 3, ["C03"], label="sparse3")
        engines.absorb_replay(ctx, s3)
    ctx.require_tags(summ["movekinds"], ALL_KIND_TAGS)
    ctx.require_tags(summ["tags"], ["home-rook-captured", "promotion-captures-home-rook"] + ["home-rook-captured-by-" + k for k in ("king", "queen", "rook", "bishop", "knight")])
    ctx.extra["move_kinds_applied"] = summ["movekinds"]
    b2_games(ctx, ["succ"], 40 if quick else 800, 200, 0, shards=4 if quick else 8)
    # one marathon game (1300 plies on one board, castling rights held beyond ply 600 and lost afterwards):
    # the successor must be the rules' successor however long the history behind it
    import props_engine
    mb, mev, mh, msk = props_engine.run_traces(ctx, "marathon", 1, 1, 0, label="marathon")
    props_engine.absorb_bad(ctx, mb)
    ctx.evaluations += mev
    ctx.sample({"binding": "B1", "move_kinds_applied": summ["movekinds"]})
    ctx.rule = ("B1: every legal move of every oracle state applied to the set-up position with ChessMove::apply, 64 squares + rights + ep + turn compared with SuccNoFlip; "
                "B2: every move applied along seeded random games logged with before/after and validated by TLC. "
                "distinct_nontrivial = applied moves that are not quiet standard moves")
    ctx.assumptions += ["Succ in Rules.tla is the rules' successor (rights lost on departure from / arrival on a home square)"]


def c06(ctx):
    quick = ctx.tier == "quick"
    summ = text_oracle(ctx, "C06", quick, game_sample=400 if quick else 100)
    ctx.require_tags(summ["tags"], ["check", "double-check", "checkmate", "stalemate", "ep-pinned", "promotion-in-check"])
    ctx.extra["tags"] = {t: summ["tags"].get(t, 0) for t in RULE_TAGS}
    b2_games(ctx, ["verdict"], 30 if quick else 500, 150, 600 if quick else 20000, heavy=2, shards=4 if quick else 8, max_extra=6)
    ctx.sample({"binding": "B1", "tags": ctx.extra["tags"]})
    ctx.rule = ("B1: in-check, game_ending, player_is_in_checkmate and the effect() annotation of every legal move, with a fresh and a long-lived generator, "
                "for every oracle state (Game::check_game_over_for_current_turn on terminal states and a sample); B2: the same answers logged along random games / set-ups, validated by TLC. "
                "Draw verdicts (move count) are out of scope here (C16). distinct_nontrivial = positions in check / terminal, and moves annotated + or #")
    ctx.assumptions += ["half-move clock below the draw threshold and nothing registered for repetition in B1 set-ups"]


def c13(ctx):
    quick = ctx.tier == "quick"
    summ = text_oracle(ctx, "C13", quick)
    ctx.require_tags(summ["tags"], LIKE_TAGS + ["O-O:w", "O-O-O:b", "promoxN:w", "ep:b", "checkmate", "check"])
    ctx.extra["tags"] = {t: summ["tags"].get(t, 0) for t in LIKE_TAGS}
    b2_games(ctx, ["san"], 30 if quick else 500, 150, 400 if quick else 10000, heavy=2, shards=4 if quick else 8, max_extra=8)
    # the labelled list as the Game hands it to its front ends, along games in which the same placement comes back
    # with the other side to move (triangulations) and along typed games
    import props_game
    gb, gev, gh = props_game.run_game_traces(ctx, "triangle", 1, 0, 0)
    props_game.absorb_game(ctx, gb, {"GLabels"})
    gb2, gev2, gh2 = props_game.run_game_traces(ctx, "typed", 4, 2 if quick else 8, 30 if quick else 60, extra=["--full-every", 0])
    props_game.absorb_game(ctx, gb2, {"GLabels"})
    ctx.evaluations += gev + gev2
    ctx.sample({"binding": "B1", "tags": ctx.extra["tags"]})
    ctx.rule = ("B1: label-by-label comparison of enumerate_candidate_moves_with_algebraic_notation with SAN(pos, m, Legal(pos)) and pairwise distinctness, on every oracle state; "
                "B2: the code's labels along random games / set-ups validated by TLC. distinct_nontrivial = labels longer than a plain piece move")


def c19(ctx):
    quick = ctx.tier == "quick"
    summ = text_oracle(ctx, "C19", quick)
    ctx.require_tags(summ["tags"], ["ep:w", "ep:b", "O-O:w", "O-O:b", "O-O-O:w", "O-O-O:b"] + ["promo%s%s:%s" % (x, k, c) for x in ("", "x") for k in "QRBN" for c in "wb"])
    b2_games(ctx, ["uci"], 30 if quick else 500, 150, 1000 if quick else 20000, shards=4 if quick else 8)
    ctx.sample({"binding": "B1", "special_moves": {t: summ["tags"].get(t, 0) for t in ["ep:w", "ep:b", "O-O:w", "O-O-O:b", "promoxN:b"]}})
    # whole games through the real bridge against a stand-in for the external engine
    import frontends
    frontends.bridge_check(ctx, 40 if quick else 400)
    ctx.rule = ("B1: to_uci of every legal move of every oracle state against UCI(m), distinctness, and the bridge parser (hook H3) applied to the rendered text: same variant, fields and effect on the board; "
                "B2: the same along random games / set-ups, validated by TLC; and `chess determine-stockfish-elo` run against a stand-in external engine on PATH: every coordinate string the engine "
                "sends in `position startpos moves ..` and every `bestmove` reply it reads back is a Bridge event of Trace_Engine (the string names the legal move played, the printed board is its successor). "
                "distinct_nontrivial = non-standard moves (castle, en passant, promotion)")


PROPS = {"C01": c01, "C03": c03, "C06": c06, "C13": c13, "C19": c19}
