"""Running TLC and reading what it prints."""
import json
import os
import re
import shutil
import subprocess
import tempfile
import time

VERIF = os.path.dirname(os.path.dirname(os.path.abspath(__file__)))
SPEC = os.path.join(VERIF, "spec")
# VERIF_OUT relocates work/, evidence/ and replays/ (used only when checks are exercised against a scratch
# copy of the repository, see lib/seeded.py); the registered commands never set it
OUT = os.environ.get("VERIF_OUT", VERIF)
WORK = os.path.join(OUT, "work")

# Fresh page faults are very slow in this VM: a small young generation (pages reused) beats a
# big heap by 2-6x.  -Xss for the recursive folds of the trace specs is set per call.
JVM = "-Xms{heap} -Xmx{heap} -Xmn{young} -XX:ParallelGCThreads={gc} {extra}"


class TlcError(Exception):
    pass


class TlcResult:
    def __init__(self):
        self.generated = 0
        self.distinct = 0
        self.depth = 0
        self.records = []       # JSON values printed through PrintT(ToJson(..)), if wanted
        self.nrecords = 0       # number of such lines
        self.violated = None    # name of a violated invariant / property
        self.error = None
        self.wall = 0.0
        self.tail = ""
        self.out_path = None
        self.postcondition_failed = False
        self.prints = []        # other PrintT output (tuples as text), capped
        self.coverage = {}      # action name -> (distinct, total) when -coverage was requested


def decode_record_line(line):
    return json.loads(json.loads(line))


def run(module, cfg, env=None, workers=16, heap="2g", young="400m", stack=None, timeout=3600,
        simulate=None, dfs=False, want_records=False, extra_args=None, out_path=None, keep=False,
        coverage=False):
    """Run TLC on spec/<module>.tla with configuration file <cfg> (relative to spec/ or absolute).

    stdout goes to a file (kept if out_path is given or keep=True).  Raises TlcError on tool
    trouble (parse error, evaluation error, timeout, crash) -- never on a property violation.
    """
    os.makedirs(WORK, exist_ok=True)
    meta = tempfile.mkdtemp(prefix="md_", dir=WORK)
    e = dict(os.environ)
    extra = ""
    if stack:
        extra += " -Xss" + stack
    if dfs:
        extra += " -Dtlc2.tool.queue.IStateQueue=StateDeque"
    e["JAVA_TOOL_OPTIONS"] = JVM.format(heap=heap, young=young, gc=min(4, max(1, workers)), extra=extra)
    if env:
        e.update({k: str(v) for k, v in env.items()})
    cmd = ["tlc", "-workers", str(workers), "-metadir", meta, "-cleanup", "-noGenerateSpecTE",
           "-config", cfg]
    if simulate:
        cmd += ["-simulate", simulate]
    if coverage:
        cmd += ["-coverage", "1"]
    if extra_args:
        cmd += extra_args
    cmd += [module + ".tla"]
    own_out = out_path is None
    if own_out:
        fd, out_path = tempfile.mkstemp(prefix="tlc_", suffix=".out", dir=WORK)
        os.close(fd)
    t0 = time.time()
    res = TlcResult()
    res.out_path = out_path
    try:
        with open(out_path, "w") as fo:
            p = subprocess.run(cmd, cwd=SPEC, env=e, stdout=fo, stderr=subprocess.STDOUT, timeout=timeout)
    except subprocess.TimeoutExpired:
        shutil.rmtree(meta, ignore_errors=True)
        raise TlcError("TLC timed out after %ss on %s/%s" % (timeout, module, cfg))
    shutil.rmtree(meta, ignore_errors=True)
    res.wall = time.time() - t0
    tail = []
    finished = False
    with open(out_path, errors="replace") as fi:
        for line in fi:
            line = line.rstrip("\n")
            if line.startswith('"'):
                res.nrecords += 1
                if want_records:
                    try:
                        res.records.append(decode_record_line(line))
                    except Exception:
                        if len(res.prints) < 200:
                            res.prints.append(line)
                continue
            tail.append(line)
            if len(tail) > 60:
                tail.pop(0)
            if line.startswith("<<"):
                if len(res.prints) < 200:
                    res.prints.append(line)
                continue
            m = re.match(r"^(\d+) states generated, (\d+) distinct states found", line)
            if m:
                res.generated = int(m.group(1))
                res.distinct = int(m.group(2))
                finished = True
                continue
            m = re.match(r"^The depth of the complete state graph search is (\d+)", line)
            if m:
                res.depth = int(m.group(1))
            m = re.match(r"^Error: Invariant (\S+) is violated", line)
            if m and not res.violated:
                res.violated = m.group(1)
            m = re.match(r"^Error: Action property (\S+) is violated", line)
            if m and not res.violated:
                res.violated = m.group(1)
            if line.startswith("Error: Temporal properties were violated") and not res.violated:
                res.violated = "temporal"
            if "Deadlock reached" in line and not res.violated:
                res.violated = "deadlock"
            if "ostcondition" in line and ("violated" in line or "false" in line.lower()):
                res.postcondition_failed = True
            if line.startswith("Error:") and res.error is None:
                res.error = line
            m = re.match(r"^<(\w+) line \d+, col \d+ to line \d+, col \d+ of module \w+>: (\d+):(\d+)", line)
            if m:
                res.coverage[m.group(1)] = (int(m.group(2)), int(m.group(3)))
    res.tail = "\n".join(tail)
    if own_out and not keep:
        os.unlink(out_path)
        res.out_path = None
    if not finished and res.violated is None and not res.postcondition_failed:
        raise TlcError("TLC did not complete on %s/%s (exit %s):\n%s" % (module, cfg, p.returncode, res.tail))
    if res.error and not res.violated and not res.postcondition_failed:
        raise TlcError("TLC reported an error on %s/%s: %s\n%s" % (module, cfg, res.error, res.tail))
    return res


def write_cfg(name, text):
    """Write a generated configuration file under work/ and return its absolute path."""
    os.makedirs(WORK, exist_ok=True)
    path = os.path.join(WORK, name)
    with open(path, "w") as f:
        f.write(text)
    return path
