#!/bin/sh
# usage: round2.sh <suffix> <scratch dir> props...   (like round.sh but with its own scratch copy, so that two streams can run side by side)
cd /verif
sfx=$1; shift
export VERIF_SCRATCH=$1; shift
for p in "$@"; do
  echo "=== $p"
  python3 lib/seeded.py confirm /tmp/mut/${p}${sfx} ${p}-${sfx} $p 2>&1 | grep -v WARNING | tail -1
  if [ -d seeded/${p}-${sfx} ]; then
    python3 lib/seeded.py eval-scratch ${p}-${sfx} 2>&1 | grep -v WARNING | tail -1 | cut -c1-260
  fi
done
echo ALLDONE
