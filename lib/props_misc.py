"""C02 C10 C11 C18."""
import json
import os

import tlc
import engines
import graph
from common import ToolError, harness, load_seeds, seed_records, write_ndjson, log, ensure_harness, HARNESS

import subprocess


def mc_gencache(ctx, keymode, expect_fail=False, sigmode="full"):
    import fen as fenlib
    p = fenlib.parse("4k3/1p5p/8/8/8/8/P7/4K3 w - -")
    p["name"] = "gencache"
    sp = write_ndjson(ctx.path("gc_seeds.ndjson"), [p])
    cfg = tlc.write_cfg("mc_gencache_%d.cfg" % os.getpid(), 'SPECIFICATION Spec\nCONSTANTS KeyMode = "%s"\n RegKeyMode = "position+side"\n MaxDepth = 4\n SigMode = "%s"\nINVARIANT CacheCoherent\nCHECK_DEADLOCK FALSE\n' % (keymode, sigmode))
    r = tlc.run("MC_GenCache", cfg, env={"SEEDS": sp}, workers=1, stack="64m", timeout=900)
    os.unlink(cfg)
    return r


def c02(ctx):
    quick = ctx.tier == "quick"
    r = mc_gencache(ctx, "retire")
    if r.violated:
        raise ToolError("design-level MC_GenCache violates %s with the retire design" % r.violated)
    ctx.states += r.distinct
    ctx.transitions += r.generated
    neg = mc_gencache(ctx, "accumulate")
    if neg.violated != "CacheCoherent":
        raise ToolError("negative control failed: stale-ep key design not rejected by CacheCoherent")
    neg2 = mc_gencache(ctx, "retire", sigmode="placement")
    if neg2.violated != "CacheCoherent":
        raise ToolError("negative control failed: a cache indexed by a placement-only signature not rejected by CacheCoherent")
    ctx.extra["design_level"] = "MC_GenCache: all engine states within 4 plies of a K+3P seed: no two share (key, colour) with different answers; accumulate-mode control and placement-only-signature control rejected"
    seeds_path = write_ndjson(ctx.path("seeds.ndjson"), seed_records(load_seeds()))
    # the long-lived generator keeps what it has answered (about 25 KB a node): each recording stays below
    # ~0.5 M nodes; the thorough tier makes two recordings (all seeds a ply deeper / the perft suite deeper still)
    configs = [(2, 3, 12, 80, 120, 60)] if quick else [(3, 0, 100, 150, 300, 40), (2, 6, 100, 150, 300, 40)]
    tot = {"nodes": 0, "attack_checks": 0, "long_lived_cache_hits": 0, "logged": 0}
    for ci, (sd, deep, games, plies, s1, a1) in enumerate(configs):
        out = ctx.path("cache%d.ndjson" % ci)
        summ = harness(["record-cache", out, "--seed", ctx.seed + ci, "--tree-depth", 4, "--seed-depth", sd, "--deep-seeds", deep, "--games", games,
                        "--plies", plies, "--seeds", seeds_path, "--sample-one-in", s1, "--attack-one-in", a1], timeout=7200)
        r2 = ctx.run_tlc("Trace_Gen", "Trace_Gen.cfg", env={"TRACE": out}, workers=1, want_records=True, stack="64m", heap="2g", young="400m", timeout=3600)
        if r2.postcondition_failed or r2.distinct != summ["logged"] + 1:
            raise ToolError("Trace_Gen did not consume the trace (%d states, %d records)\n%s" % (r2.distinct, summ["logged"], r2.tail))
        lines = None
        nbad = 0
        for x in r2.records:
            if "bad" in x:
                nbad += 1
                if lines is None:
                    lines = open(out).read().splitlines()
                rec = json.loads(lines[x["bad"] - 1])
                import fen as fenlib
                ctx.violation(x["why"], {"binding": "B2 Trace_Gen", "fen": fenlib.fen(rec["pos"]), "query": rec, "diagnosis": x["x"]}, sig={"what2": rec["what"]})
        seen = summ["move_disagreements"] + summ["attack_disagreements"]
        ctx.extra["disagreements_seen_by_the_recorder"] = ctx.extra.get("disagreements_seen_by_the_recorder", 0) + seen
        # the recorder logs the first 300 disagreements of each kind (and whatever the agreement sample happens to
        # contain); TLC must confirm at least those, and none when the recorder saw none
        if (seen == 0 and nbad != 0) or nbad < min(seen, 300):
            raise ToolError("harness saw %d disagreements, TLC reported %d" % (seen, nbad))
        for k in tot:
            tot[k] += summ[k]
        if ci == 0:
            with open(out) as f:
                ctx.sample({"binding": "B2", "query": json.loads(f.readline())})
        os.unlink(out)
    summ = tot
    ctx.traces += 1
    ctx.evaluations += summ["nodes"] + summ["attack_checks"]
    ctx.nontrivial += summ["long_lived_cache_hits"]
    ctx.extra.update({"nodes_queried": summ["nodes"], "long_lived_cache_hits": summ["long_lived_cache_hits"], "attack_map_checks": summ["attack_checks"], "queries_validated_by_tlc": summ["logged"]})
    ctx.rule = ("one long-lived generator through a perft-shaped walk of the start position to ply 4 (contains 1.a4 h6 2.a5 b5 / 1.a4 b5 2.a5 h6), seed walks, walks that leave board.turn() alone as count_positions does (player passed explicitly; at each promotion the colour-flipped twin position is asked first), random games with backtracking and searches; "
                "at every node its move list is compared with a capacity-1 generator whose hit counter did not move (else a brand-new one), attack maps of both colours at every node with a generator at most 2000 questions old (several 10^5 entries accumulate in the long-lived attack cache, so a narrowed key aliases) and with a brand-new generator on a sample; "
                "all disagreements and a sample of agreements are validated by Trace_Gen. distinct_nontrivial = queries answered from the long-lived cache")
    ctx.assumptions += ["alarm = the property's own sentence (long-lived differs from brand-new); a generator that is wrong but consistent is C01's business"]


PERFT_QUICK = [("start", 3), ("kiwipete", 2), ("suite3", 3), ("suite4", 2), ("suite4m", 2), ("suite5", 2), ("suite6", 2), ("ep-two-capturers", 3), ("castle-all-w", 2), ("promo-takes-rook-w", 3), ("corner-rooks-trade-a", 3), ("corner-rooks-trade-h", 3), ("ep-pinned-diag-far-w", 2), ("ep-pinned-diag-far-b", 2), ("ep-pinned-rank-inner-w", 2), ("ep-pinned-rank-inner-b", 2)]
PERFT_THOROUGH = [("start", 4), ("kiwipete", 3), ("suite3", 4), ("suite4", 3), ("suite4m", 3), ("suite5", 3), ("suite6", 3), ("ep-two-capturers", 4), ("castle-all-w", 3), ("castle-all-b", 3),
                  ("promo-takes-rook-w", 4), ("promo-takes-rook-b", 4), ("mc-engine", 4), ("ep-pinned-rank", 4), ("corner-rooks-trade-a", 4), ("corner-rooks-trade-h", 4)]


def c10(ctx):
    quick = ctx.tier == "quick"
    plan = PERFT_QUICK if quick else PERFT_THOROUGH
    allseeds = {s["name"]: s for s in load_seeds()}
    by_depth = {}
    for name, d in plan:
        by_depth.setdefault(d, []).append(name)
    cases = []
    expected = {}
    for d, names in sorted(by_depth.items()):
        recs = seed_records([allseeds[n] for n in names])
        g = graph.generate(ctx, recs, d, label="graph%d" % d)
        for i, n in enumerate(names):
            root = g.roots[i + 1]
            memo = {}
            depths = list(range(0, d + 1))
            for dd in depths:
                expected[(n, dd)] = graph.count_positions(g, root, dd, memo)
            # self-test of the reference against the published perft table
            pub = allseeds[n].get("perft")
            if pub:
                for k in range(1, min(len(pub), d + 1) + 1):
                    got = graph.perft(g, root, k)
                    if got != pub[k - 1]:
                        raise ToolError("reference self-test failed: perft(%s, %d) = %d from the TLC graph, published %d" % (n, k, got, pub[k - 1]))
            cases.append({"name": n, "pos": recs[i], "depths": depths})
    cp = ctx.path("perft_cases.json")
    with open(cp, "w") as f:
        json.dump(cases, f)
    summ = harness(["perft", cp, "--pools", "1,2,4,16" if quick else "1,2,3,4,8,16"], timeout=7200)
    for c in summ["cases"]:
        want = expected[(c["name"], c["depth"])]
        for entry, r in c["results"].items():
            ctx.evaluations += 1
            ctx.traces += 1     # one real count compared with the path count of the TLC-generated graph
            if c["depth"] >= 2:
                ctx.nontrivial += 1
            if "panic" in r:
                ctx.violation("position counter panicked", {"seed": c["name"], "fen": allseeds[c["name"]]["fen"], "depth": c["depth"], "entry_point": entry, "panic": r["panic"]}, sig={"entry": entry})
            elif r["n"] != want:
                ctx.violation("position count differs from the number of legal move sequences",
                              {"seed": c["name"], "fen": allseeds[c["name"]]["fen"], "depth": c["depth"], "entry_point": entry, "got": r["n"], "want": want}, sig={"entry": entry})
            elif r.get("board_unchanged") is False:
                ctx.violation("count_positions changed the caller's board", {"seed": c["name"], "depth": c["depth"]}, sig={"entry": entry})
    # the command-line driver's own output (start position)
    dmax = 3 if quick else 4
    p = subprocess.run([HARNESS, "cli-count", "--depth", str(dmax)], stdout=subprocess.PIPE, stderr=subprocess.PIPE, text=True, timeout=3600)
    import re
    seen = {}
    for line in p.stdout.splitlines():
        m = re.match(r"depth: (\d+), positions: (\d+)", line)
        if m:
            seen[int(m.group(1))] = int(m.group(2))
    for d in range(1, dmax + 1):
        ctx.evaluations += 1
        want = expected[("start", d)]
        if seen.get(d) != want:
            ctx.violation("count-positions command line output differs", {"depth": d, "got": seen.get(d), "want": want, "exit": p.returncode, "stderr": p.stderr[-300:]}, sig={"entry": "cli"})
    ctx.sample({"binding": "B1 graph", "expected": {"%s@%d" % k: v for k, v in list(expected.items())[:8]}})
    ctx.extra["expected_counts"] = {"%s@%d" % k: v for k, v in expected.items()}
    ctx.rule = ("expected = sum over k=1..d+1 of the number of paths of length k in the TLC state graph of layer R (Oracle_Graph; self-tested against the published perft table); "
                "observed = count_positions with a new and with a used generator, the sequential inner routine (hook H4) with a new and a used generator, rayon pools of several sizes, and the command-line driver's output. "
                "distinct_nontrivial = (position, depth >= 2, entry point) cases")


def c11(ctx):
    quick = ctx.tier == "quick"
    draws = 1 if quick else 4
    for d in range(draws):
        if d > 0:
            ensure_harness(fresh_tables=True)
        out = ctx.path("geo.tlcout")
        r = ctx.run_tlc("Oracle_Geometry", "Oracle_Geometry.cfg", workers=16, out_path=out)
        if r.nrecords != 107776:
            raise ToolError("geometry oracle printed %d records, expected 107776" % r.nrecords)
        summ = harness(["geometry", out], timeout=3600)
        os.unlink(out)
        ctx.evaluations += summ["evaluations"]
        ctx.nontrivial += summ["records"]
        for m in summ["mismatches"]:
            ctx.violation(m["what"], {"binding": "B1 complete enumeration", "case": m, "table_draw": d}, sig={"kind": m.get("kind")})
        log("C11: draw %d: %d enumerated cases x 2 colours replayed, %d mismatches" % (d, summ["records"], summ["violations"]))
        # arbitrary extra pieces elsewhere + queens: recorded from the code, validated by TLC
        rec = ctx.path("geo_random.ndjson")
        s2 = harness(["record-geometry", rec, "--seed", ctx.seed + d, "--cases", 6000 if quick else 40000])
        bad, skipped, total = engines.validate_records(ctx, rec, shards=4, workers=4, label="geo")
        engines.absorb_records(ctx, bad, skipped, total)
        ctx.evaluations += total
    # attack maps of real positions (sliders + knights + kings together)
    seeds = seed_records(load_seeds(), both_colours=True)
    summ = engines.oracle_replay(ctx, seeds, 1 if quick else 2, ["C11"], attacks=True, label="positions")
    engines.absorb_replay(ctx, summ)
    ctx.exhaustive = True
    ctx.extra["table_draws_examined"] = draws
    ctx.sample({"binding": "B1", "case": ["R", 1, [2, 9], [2, 9]], "meaning": "rook a1, blockers b1 a2 -> attacks b1 a2"})
    ctx.rule = ("B1: ALL 102 400 rook and 5 248 bishop (square, subset of relevant blockers) cases and the 64+64 knight/king squares enumerated by TLC from the ray-walk definition, replayed for both colours against get_attack_targets "
                "on boards with one attacker and opposite-coloured blockers; B2: random full-board occupancies incl. queens validated by TLC; attack maps of oracle positions. "
                "exhaustive = the enumeration of relevant-blocker subsets is complete for the table draw(s) examined. distinct_nontrivial = enumerated cases")
    ctx.assumptions += ["quick examines the magic constants of the current build; thorough re-draws them 3 more times"]


def c18(ctx):
    quick = ctx.tier == "quick"
    out = ctx.path("eval.ndjson")
    eseeds = write_ndjson(ctx.path("eval_seeds.ndjson"), seed_records(load_seeds(), both_colours=True))
    summ = harness(["record-eval", out, "--seed", ctx.seed, "--random", 1500 if quick else 20000, "--games", 8 if quick else 100, "--seeds", eseeds])
    bad, skipped, total = engines.validate_records(ctx, out, shards=4, workers=4, label="eval")
    # C18 speaks of symmetry, bounds, mate ordering and stalemate = 0; the rest of what these records
    # check (leaf score = static score on ordinary positions, board rendering) is spec growth
    c18_whys = {"_restricted_types": ("score", "render"), "stalemate / draw by move count does not score zero": 1,
                "a mated position is not scored as a mate at every remaining depth": 1}
    engines.absorb_records(ctx, bad, skipped, total, whys=c18_whys)
    ctx.evaluations += total
    ctx.nontrivial += total
    ctx.extra["min_mate_magnitude"] = summ["min_mate_magnitude"]
    with open(out) as f:
        for i, line in enumerate(f):
            if i in (0, 12):
                r = json.loads(line)
                if "scores" in r:
                    r["scores"] = r["scores"][:4] + ["..."]
                ctx.sample({"binding": "B2", "record": r})
    ctx.rule = ("the code's static score of a position and of its colour-mirror (180-degree rotation, colours swapped), logged for: a covering family (every piece kind on every square, both colours, "
                "end-game switch off and on), material extremes (0-9 queens a side, bare kings, random mixes) and random-game positions; TLC checks that the mirror is Mirror(pos) of the specification, a = -b, "
                "|score| strictly below the smallest mate-score magnitude; mate scores for remaining depth 0..255 on six mates (both colours) strictly improve with depth; stalemates score 0. Overflow checks on.")
    ctx.assumptions += ["symmetry is required of the static score only (the two mate constants differ by one)"]


PROPS = {"C02": c02, "C10": c10, "C11": c11, "C18": c18}
