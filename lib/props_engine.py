"""C04 C05 C12 C16 C17: the stateful properties, decided by the mechanism model Engine.tla:
bounded exhaustive model checking (MC_Engine, design level) and validation of histories recorded
from the real board (Trace_Engine), plus constant tables (Trace_Tables) and transient boards."""
import json
import os
from concurrent.futures import ThreadPoolExecutor

import tlc
import engines
from common import ToolError, harness, load_seeds, seed_records, write_ndjson, read_ndjson, log

MC_CFG = """SPECIFICATION Spec
CONSTANTS KeyMode = "{keymode}"
 RegKeyMode = "{regmode}"
 MaxDepth = {depth}
 MaxReg = {reg}
INVARIANTS KeyInvariant BoardInvariant ClockInvariant RegInvariant UncountInvariant
PROPERTIES AbsStep UndoRestores
CHECK_DEADLOCK FALSE
"""
MC_SEEDS_QUICK = ["mc-engine", "ep-two-capturers", "promo-takes-rook-w", "castle-partial", "ep-pinned-rank"]
MC_SEEDS_THOROUGH = MC_SEEDS_QUICK + ["castle-all-b", "promo-corner-capture", "home-rook-bishop", "ep-edge-b6", "shuffle-krr", "promo-quiet-b", "ep-discovers-check"]


def mc_engine(ctx, depth, reg, names, keymode="retire", regmode="position+side", expect_violation=None, timeout=3000):
    seeds = [s for s in seed_records(load_seeds()) if s["name"] in names]
    sp = write_ndjson(ctx.path("mc_seeds.ndjson"), seeds)
    cfg = tlc.write_cfg("mc_engine_%s_%d.cfg" % (ctx.prop, os.getpid()), MC_CFG.format(keymode=keymode, regmode=regmode, depth=depth, reg=reg))
    r = tlc.run("MC_Engine", cfg, env={"SEEDS": sp}, workers=16, timeout=timeout)
    os.unlink(cfg)
    if expect_violation:
        return r
    ctx.states += r.distinct
    ctx.transitions += r.generated
    ctx.tlc_runs.append({"module": "MC_Engine", "depth": depth, "seeds": len(seeds), "distinct": r.distinct, "generated": r.generated, "wall_s": round(r.wall, 1)})
    if r.violated:
        raise ToolError("design-level model MC_Engine violates %s: the specification itself is inconsistent\n%s" % (r.violated, r.tail))
    log("%s: MC_Engine depth %d over %d seeds: %d distinct states, all mechanism invariants hold (%.1fs)" % (ctx.prop, depth, len(seeds), r.distinct, r.wall))
    return r


PLACE = {"placement", "turn", "cr", "ep"}
ALLOBS = PLACE | {"hm", "fm", "seen"}


def in_scope(prop, b):
    d = set(b.get("diff", []))
    ev = b.get("ev")
    why = b.get("why", "")
    failed = "failed" in d
    overflow = failed and "overflow" in json.dumps(b.get("x", ""))
    if ev == "Crash":
        # the board cannot even be read any more: every history property is violated at once
        return prop in ("C04", "C12")
    if prop == "C07":
        # the answer, a crash, or the caller's board changed by the call (a key that is wrong before AND after
        # is C05's business)
        return ev == "Search" and bool(d & (ALLOBS | {"keyStable", "result", "failed"}))
    if prop == "C01":
        return ev == "Moves" and bool(d & {"result", "failed"})
    if prop == "C03":
        return ev == "Apply" and (bool(d & PLACE) or (failed and not overflow))
    if prop == "C04":
        if ev == "Undo":
            return bool(d & (ALLOBS | {"keyRestored", "failed"}))
        if ev in ("Query", "Ending"):
            return bool(d & (ALLOBS | {"keyStable"}))
        if ev == "Uncount":
            # "repetition bookkeeping" is restored when a registered move is taken back: unregistering is the
            # first half of that take-back in every caller (search, game)
            return bool(d & {"failed", "result", "seen"})
        if ev == "CloneUndo":
            # the boards the search and the position counter work on are copies: undo must restore on them too
            return bool(d & (ALLOBS | {"failed"}))
        return False
    if prop == "C05":
        if ev in ("Put", "Remove", "LoseRights", "PushEp", "PopEp", "EReset"):
            # the editing API is the "direct set-up" of C05: the key and what the operation did to the board
            return bool(d & {"key", "keyStable", "placement", "cr", "ep", "result"})
        return bool(d & {"key", "keyStable"}) and not (ev in ("Query",) and "key" not in d)
    if prop == "C12":
        return bool(d & {"sum", "inv"})
    if prop == "C16":
        if ev in ("Apply", "Undo"):
            # "advances by exactly one per move made and retreats by one per undo"; the clock after an undo is
            # again the number of plies since the last capture or pawn move
            return bool(d & {"hm", "fm"}) or overflow
        if overflow:
            return True
        return why in ("draw by move count not reported",) or (why == "draw reported too early" and b.get("x", {}).get("seen", 0) < 3)
    if prop == "C17":
        if ev in ("Count", "Uncount"):
            return "result" in d or "seen" in d or failed
        if ev == "CloneUndo" and (b.get("history_tail") or [{}])[-1].get("reg"):
            # unregistering on a copy of the board (an adjourned game, a search task) is the same inverse
            return failed or "seen" in d
        if why == "draw by repetition not reported":
            return True
        if why == "draw reported too early":
            return b.get("x", {}).get("seen", 0) >= 2 and b.get("x", {}).get("hm", 0) < 100
        if "seen" in d and ev in ("Apply", "Undo", "Toggle"):
            return True
        # recurrences are counted per (placement, side, rights, ep target): if the engine's own idea of these
        # components is wrong after a move, its counts cannot be the number of true recurrences either
        return ev in ("Apply", "Undo") and bool(d & {"placement", "cr", "ep"})
    return False


def run_traces(ctx, scenario, shards, games, plies, with_sum=False, label=None, timeout=1800, tlc_env=None):
    """Record `shards` traces from the real code (different seeds) and validate each with its own
    single-worker TLC (the search is linear).  Returns (bad entries, events, histories, skipped)."""
    label = label or scenario
    seeds_path = write_ndjson(ctx.path("trace_seeds.ndjson"), seed_records(load_seeds()))

    def one(i):
        out = ctx.path("%s_%d.ndjson" % (label, i))
        args = ["record-trace", out, "--scenario", scenario, "--seed", ctx.seed * 1000 + i, "--games", games, "--plies", plies, "--seeds", seeds_path]
        if with_sum:
            args.append("--sum")
        summ = harness(args, timeout=timeout)
        summ["args"] = [str(a) for a in args]
        env = {"TRACE": out}
        env.update(tlc_env or {})
        r = tlc.run("Trace_Engine", "Trace_Engine.cfg", env=env, workers=1, want_records=True, stack="64m",
                    heap="1500m", young="300m", timeout=timeout)
        return i, out, summ, r

    bad, events, histories, skipped = [], 0, 0, 0
    n = 1 if scenario == "scripts" else shards
    with ThreadPoolExecutor(max_workers=min(n, 8)) as ex:   # each recorder holds ~2.2 GB (the generator's default caches), each TLC 1.5 GB
        results = list(ex.map(one, range(n)))
    for i, out, summ, r in results:
        if r.violated:
            raise ToolError("Trace_Engine model invariant %s failed -- defect of the specification\n%s" % (r.violated, r.tail))
        ctx.states += r.distinct
        ctx.transitions += r.generated
        ctx.tlc_runs.append({"module": "Trace_Engine", "scenario": scenario, "events": summ["events"], "distinct": r.distinct, "wall_s": round(r.wall, 1)})
        if r.postcondition_failed or r.distinct != summ["events"] + 1:
            raise ToolError("trace %s not consumed completely (%d states for %d events): %s\n%s" % (out, r.distinct, summ["events"], [x for x in r.records if "stuck" in x], r.tail))
        events += summ["events"]
        histories += summ["histories"]
        lines = None
        for x in r.records:
            if "skip" in x:
                skipped += 1
            elif "bad" in x:
                if lines is None:
                    lines = open(out).read().splitlines()
                li = x["bad"]
                # history since the last Reset (capped) for the replay file
                j = li - 1
                while j > 1 and '"ev":"Reset"' not in lines[j]:
                    j -= 1
                hist = [json.loads(l) for l in lines[max(j, li - 40):li]]
                x["history_tail"] = hist
                x["trace_seed"] = ctx.seed * 1000 + i
                x["scenario"] = scenario
                x["harness_args"] = summ["args"]
                bad.append(x)
        if not ctx.samples and summ["events"] > 3:
            with open(out) as f:
                f.readline()
                ctx.sample({"binding": "B2 trace", "scenario": scenario, "first_events": [json.loads(f.readline()) for _ in range(3)]})
        os.unlink(out)
    ctx.traces += histories
    log("%s: Trace_Engine %s: %d histories, %d events validated, %d out-of-scope skips, %d reported differences (all jurisdictions)" % (
        ctx.prop, scenario, histories, events, skipped, len(bad)))
    return bad, events, histories, skipped


def absorb_bad(ctx, bad):
    n = 0
    other = {}
    for b in bad:
        if in_scope(ctx.prop, b):
            n += 1
            sig = {"ev": b.get("ev"), "diff": ",".join(sorted(b.get("diff", [])))}
            ctx.violation(b["why"], {"binding": "B2 trace validation (Trace_Engine)", "event_line": b["bad"], "event": b.get("ev"), "differs": b.get("diff"),
                                     "logged_vs_model": b.get("x"), "scenario": b.get("scenario"), "trace_seed": b.get("trace_seed"), "harness_args": b.get("harness_args"),
                                     "history_tail": b.get("history_tail")}, sig=sig)
        else:
            k = "%s:%s" % (b.get("ev"), ",".join(sorted(b.get("diff", []))))
            other[k] = other.get(k, 0) + 1
    if other:
        ctx.extra["differences_in_other_jurisdictions"] = other
        log("%s: differences belonging to other properties (not judged here): %s" % (ctx.prop, other))
    return n


def tables_check(ctx, fresh=False):
    out = ctx.path("tables.ndjson")
    harness(["record-trace", out, "--scenario", "scripts", "--seed", ctx.seed])
    r = ctx.run_tlc("Trace_Tables", "Trace_Tables.cfg", env={"TRACE": out}, workers=1, want_records=True, heap="1g", young="200m")
    for x in r.records:
        if "bad" in x:
            ctx.violation(x["why"], {"binding": "black-box read key constants (Trace_Tables)"}, sig={"ev": "Tables"})
    ctx.evaluations += 752 + 16 + 16
    os.unlink(out)


def b1_undo(ctx, ply):
    seeds = seed_records(load_seeds(), both_colours=True)
    summ = engines.oracle_replay(ctx, seeds, ply, ["C04"], label="positions")
    engines.absorb_replay(ctx, summ)
    return summ


def c04(ctx):
    quick = ctx.tier == "quick"
    mc_engine(ctx, 2 if quick else 3, 2, MC_SEEDS_QUICK if quick else MC_SEEDS_THOROUGH)
    summ = b1_undo(ctx, 1 if quick else 2)
    bad, ev, hist, sk = run_traces(ctx, "walk", 12, 5 if quick else 20, 160 if quick else 400)
    absorb_bad(ctx, bad)
    bad2, ev2, h2, sk2 = run_traces(ctx, "repetition", 4 if quick else 12, 3 if quick else 30, 200)
    absorb_bad(ctx, bad2)
    # "to any nesting depth": games of several hundred plies (counters beyond 255) taken back completely
    bad3, ev3, h3, sk3 = run_traces(ctx, "clock", 4 if quick else 8, 2 if quick else 8, 340, label="long")
    absorb_bad(ctx, bad3)
    # scripted shuffles (triangulations: the same position with either side to move), registered and then taken
    # back completely, unregistering on the way
    bad4, ev4, h4, sk4 = run_traces(ctx, "scripts", 1, 0, 0, label="scripts")
    absorb_bad(ctx, bad4)
    ev2 += ev4
    ev2 += ev3
    h2 += h3
    ctx.evaluations += ev + ev2
    ctx.nontrivial += hist + h2
    ctx.extra["events_validated"] = ev + ev2
    ctx.rule = ("design: UndoRestores holds on every state of MC_Engine; B1: apply+undo of every legal move of every oracle state restores the full projection and summaries; "
                "B2: seeded random walks (50-400 plies) with undo bursts of random length incl. all the way back, queries (generation, annotation, notation, search, counting) in between, "
                "and registration/unregistration; every Undo and Query event's projection (placement, turn, rights, ep, clocks, key, repetition count) must equal the stack-shaped model's. "
                "distinct_nontrivial = histories")
    ctx.assumptions += ["the model pops the same stacks the code pops; a difference is reported at the first later peek that differs"]


def c05(ctx):
    quick = ctx.tier == "quick"
    mc_engine(ctx, 2 if quick else 3, 1, MC_SEEDS_QUICK if quick else MC_SEEDS_THOROUGH)
    neg = mc_engine(ctx, 3, 1, MC_SEEDS_QUICK, keymode="accumulate", expect_violation="KeyInvariant")
    if neg.violated != "KeyInvariant":
        raise ToolError("negative control failed: the accumulate design was not rejected by KeyInvariant (%s)" % neg.violated)
    ctx.extra["negative_control"] = "KeyMode=accumulate rejected by KeyInvariant after %d states" % neg.distinct
    draws = 1 if quick else 4
    for d in range(draws):
        if d > 0:
            from common import ensure_harness
            ensure_harness(fresh_tables=True)
        tables_check(ctx)
        bad, ev, hist, sk = run_traces(ctx, "walk", 12, 5 if quick else (12 if d == 0 else 5), 160 if quick else 300, label="walk%d" % d)
        absorb_bad(ctx, bad)
        bad2, ev2, h2, sk2 = run_traces(ctx, "scripts", 1, 0, 0, label="scripts%d" % d)
        absorb_bad(ctx, bad2)
        # direct set-up through the editing API, including refused operations
        bad3, ev3, h3, sk3 = run_traces(ctx, "edit", 4, 6 if quick else 40, 120, label="edit%d" % d)
        absorb_bad(ctx, bad3)
        ev2 += ev3
        h2 += h3
        if d == 0:
            # "however they were reached": also after hundreds of plies (clocks beyond every threshold), with set-up
            # clocks and counters -- the key must not depend on any counter
            bad4, ev4, h4, sk4 = run_traces(ctx, "clock", 4, 2 if quick else 8, 250, label="long%d" % d)
            absorb_bad(ctx, bad4)
            ev2 += ev4
            h2 += h4
        ctx.evaluations += ev + ev2
        ctx.nontrivial += hist + h2
    # boards between a move and its undo inside generation, annotation and search (hook H5): their key too
    tk = ctx.path("transient_keys.ndjson")
    tseeds = write_ndjson(ctx.path("tkseeds.ndjson"), seed_records(load_seeds()))
    tsumm = harness(["record-transient", tk, "--seed", ctx.seed, "--games", 6 if quick else 40, "--plies", 60, "--one-in", 60 if quick else 40,
                     "--cap", 8000 if quick else 60000, "--seeds", tseeds, "--keys"])
    tb, tsk, ttot = engines.validate_records(ctx, tk, shards=4, workers=4, label="transient keys")
    engines.absorb_records(ctx, tb, tsk, ttot)
    ctx.extra["transient_board_keys_validated"] = ttot
    ctx.evaluations += ttot
    ctx.extra["table_draws_examined"] = draws
    ctx.rule = ("design: KeyInvariant on every state of MC_Engine, accumulate-mode negative control must fail; constants: 752 piece + 16 ep non-zero and pairwise distinct, 16 rights sets pairwise distinct; "
                "B2: at EVERY event of every history TLC recomputes the 64-bit key of the logged position from the black-box-read constants (16-bit limbs) and compares it with the logged key: "
                "transpositions, make/undo detours and direct set-up (Reset) included. distinct_nontrivial = histories")
    ctx.assumptions += ["quick examines the key tables of the current build; thorough re-draws them 3 more times (build script re-run)",
                        "random 64-bit constants collide with probability < 2^-44 per build"]


def c12(ctx):
    quick = ctx.tier == "quick"
    mc_engine(ctx, 2 if quick else 3, 1, MC_SEEDS_QUICK if quick else MC_SEEDS_THOROUGH)
    bad, ev, hist, sk = run_traces(ctx, "walk", 12, 4 if quick else 15, 160 if quick else 300, with_sum=True)
    absorb_bad(ctx, bad)
    bad2, ev2, h2, sk2 = run_traces(ctx, "clock", 8 if quick else 12, 3 if quick else 10, 340, with_sum=True)
    absorb_bad(ctx, bad2)
    badm, evm, hm_, skm = run_traces(ctx, "marathon", 1, 1, 0, with_sum=True, label="marathon")
    absorb_bad(ctx, badm)
    ev2 += evm
    # B1: the board after EVERY legal move of every oracle state (1-ply neighbourhood of the catalogue, both colours)
    bo = ctx.path("boards_after_moves.ndjson")
    summ1 = engines.oracle_replay(ctx, seed_records(load_seeds(), both_colours=True), 1 if quick else 2, ["C12"], label="positions", boards_out=bo)
    ctx.require_tags(summ1["tags"], ["promotion-captures-home-rook", "home-rook-captured", "ep:w", "ep:b", "O-O:w", "O-O-O:b"])
    b4, sk4, tot4 = engines.validate_records(ctx, bo, shards=4 if quick else 8, workers=4, label="boards")
    engines.absorb_records(ctx, b4, sk4, tot4)
    ctx.extra["boards_after_oracle_moves_validated"] = tot4
    ctx.evaluations += tot4
    out = ctx.path("transient.ndjson")
    seeds_path = write_ndjson(ctx.path("tseeds.ndjson"), seed_records(load_seeds()))
    summ = harness(["record-transient", out, "--seed", ctx.seed, "--games", 10 if quick else 80, "--plies", 80, "--one-in", 40 if quick else 25,
                    "--cap", 20000 if quick else 200000, "--seeds", seeds_path])
    b3, skipped, total = engines.validate_records(ctx, out, shards=4 if quick else 8, workers=4, label="transient")
    engines.absorb_records(ctx, b3, skipped, total)
    ctx.extra["transient_boards_seen"] = summ["transient_boards_seen"]
    ctx.extra["transient_boards_validated"] = total
    ctx.evaluations += ev + ev2 + total
    ctx.nontrivial += hist + h2
    ctx.rule = ("design: BoardInvariant on every state of MC_Engine; B2: at every event of every history the logged per-piece / per-colour / whole-board summaries must agree with the 64 logged squares "
                "and the logged position must satisfy BoardInv (one king a side, no pawn on rank 1/8, right => king and rook at home, ep target shape); "
                "plus boards sampled between a move and its undo inside generation / annotation / search (hook H5). distinct_nontrivial = histories")


def c16(ctx):
    quick = ctx.tier == "quick"
    mc_engine(ctx, 2 if quick else 3, 1, MC_SEEDS_QUICK if quick else MC_SEEDS_THOROUGH)
    bad, ev, hist, sk = run_traces(ctx, "clock", 12, 2 if quick else 12, 330 if quick else 700)
    absorb_bad(ctx, bad)
    bad2, ev2, h2, sk2 = run_traces(ctx, "walk", 4 if quick else 12, 4 if quick else 30, 200, label="walk")
    absorb_bad(ctx, bad2)
    # the Game API's own verdict along long shuffling games (positions recur, the clock passes 100)
    import props_game
    gb, gev, gh = props_game.run_game_traces(ctx, "longgame", 1, 0, 0, extra=["--rounds", 70 if quick else 150])
    props_game.absorb_game(ctx, [b for b in gb if b["why"] in ("draw by move count not reported",) or
                                 (b["why"] == "draw reported too early" and b.get("x", {}).get("occurred", 0) < 3)], {"GEnding"})
    # the Game's own move counter (what the game loops compare with their move limit)
    props_game.absorb_game(ctx, [b for b in gb if "gfm" in b.get("diff", []) or "fm" in b.get("diff", []) or "hm" in b.get("diff", [])],
                           {"Coord", "CoordBatch", "GToggle", "GEnding", "EngineMove", "GLabels"}, own=("gfm",))
    ctx.evaluations += ev + ev2 + gev
    ctx.nontrivial += hist
    ctx.rule = ("design: ClockInvariant on MC_Engine; B2: games steered into long reversible stretches with occasional pawn moves (330-700 plies, clocks also started at 40-100 so that "
                "49/50/99/100 and 254/255/256 are crossed), half-move clock and move counter compared with the model after every apply/undo, evaluate::game_ending asked at every ply: "
                "draw by move count iff the clock has reached 100. Built with overflow checks on (a counter overflow aborts the call and is reported). distinct_nontrivial = long histories")
    ctx.assumptions += ["precedence between a draw and a mate/stalemate on the same ply is not judged"]


def c17(ctx):
    quick = ctx.tier == "quick"
    mc_engine(ctx, 2 if quick else 3, 2 if quick else 3, MC_SEEDS_QUICK if quick else MC_SEEDS_THOROUGH)
    bad, ev, hist, sk = run_traces(ctx, "repetition", 12, 3 if quick else 20, 260 if quick else 500)
    absorb_bad(ctx, bad)
    bad2, ev2, h2, sk2 = run_traces(ctx, "scripts", 1, 0, 0)
    absorb_bad(ctx, bad2)
    ctx.evaluations += ev + ev2
    ctx.nontrivial += hist + h2
    import props_game
    props_game.game_repetition(ctx)
    ctx.rule = ("design: RegInvariant / UncountInvariant on MC_Engine (ghost list of registered full positions); B2: shuffling histories that keep returning to earlier positions, every position registered, "
                "unregistered before every undo; scripted recurrences (same side, other side to move by triangulation, rights lost by an excursion, ep opportunity); the reported count must equal the model's bag multiplicity of "
                "(placement, side, rights, ep). Game level: shuffle games through the Game API must report Draw at the third occurrence. distinct_nontrivial = histories")


PROPS = {"C04": c04, "C05": c05, "C12": c12, "C16": c16, "C17": c17}
