"""A family of small abstract games for MC_Search: random position graphs with transpositions,
unfolded to the search depth; TLC explores every interleaving of the cache accesses of the tasks."""
import os
import random

import tlc

TEMPLATE = """------------------------------ MODULE {name} ------------------------------
(* generated: abstract game #{idx}; {nn} nodes unfolded from {np} positions *)
EXTENDS Search
ChildrenC == {children}
PosKeyC == {poskey}
StaticC == {static}
MateC == [n \\in 0..{last} |-> {mate}]
=============================================================================
"""
CFG = """SPECIFICATION Spec
CONSTANTS
  Children <- ChildrenC
  PosKey <- PosKeyC
  Static <- StaticC
  MateBonus <- MateC
  Root = 0
  RootMax = {rootmax}
  Depth = {depth}
  Root2 = {root2}
  Root2Max = {root2max}
  KeyMode = "{mode}"
INVARIANTS ExactValue ExactTasks
PROPERTY Terminates
"""


def gen_game(rnd, depth=5):
    """positions 0..m-1 with 0-2 successors each (the same position may recur at different depths
    and with either side to move); unfolded from position 0 to `depth` plies -- two plies plus the
    search depth beyond the first root, so that the second search (from a grandchild) sees complete
    subtrees (a node cut off by the unfolding would alias a position that does have moves)"""
    m = rnd.randint(4, 6)
    succ = {}
    for p in range(m):
        k = rnd.choice([0, 1, 2, 2, 2])
        succ[p] = [rnd.randrange(m) for _ in range(k)]
    succ[0] = [rnd.randrange(1, m) for _ in range(rnd.choice([2, 2, 3]))]
    static = {p: rnd.randint(-3, 3) for p in range(m)}
    nodes = [(0, 0)]          # (position, ply)
    children = {}
    i = 0
    while i < len(nodes):
        p, ply = nodes[i]
        ch = []
        if ply < depth:
            for q in succ[p]:
                nodes.append((q, ply + 1))
                ch.append(len(nodes) - 1)
        children[i] = ch
        i += 1
    if len(nodes) > 90:
        return None
    return nodes, children, static


def fn(d, fmt):
    arms = ["n = %d -> %s" % (k, fmt(v)) for k, v in d.items() if fmt(v) != fmt(None)]
    if not arms:                      # every node takes the default value: CASE needs at least one arm
        return "[n \\in 0..%d |-> %s]" % (len(d) - 1, fmt(None))
    return "[n \\in 0..%d |-> CASE %s [] OTHER -> %s]" % (len(d) - 1, " [] ".join(arms), fmt(None))


def write_game(idx, rnd, workdir):
    g = None
    while g is None:
        g = gen_game(rnd)
    nodes, children, static = g
    name = "MC_SearchG%d_%d" % (os.getpid(), idx)     # unique per process: several checks may run at once
    seq = lambda v: "<< >>" if not v else "<<" + ", ".join(map(str, v)) + ">>"
    text = TEMPLATE.format(name=name, idx=idx, nn=len(nodes), np=len(static), last=len(nodes) - 1,
                           children=fn(children, seq),
                           poskey=fn({i: n[0] for i, n in enumerate(nodes)}, lambda v: "0" if v is None else str(v)),
                           static=fn({i: static[n[0]] for i, n in enumerate(nodes)}, lambda v: "0" if v is None else str(v)),
                           mate=rnd.choice(["0", "0", "1"]))
    path = os.path.join(tlc.SPEC, name + ".tla")
    with open(path, "w") as f:
        f.write(text)
    # the second search of the game (same context): from a grandchild of the first root, either colour
    grand = [c2 for c in children[0] for c2 in children[c] if children[c2]]
    root2 = rnd.choice(grand) if grand else 9999
    return name, path, root2


def run_family(n, seed, depth=3):
    """returns (games, states, generated, window_failures): full-key mode must pass on every game"""
    rnd = random.Random(seed)
    states = gen = wfail = 0
    fails = {}
    for i in range(n):
        name, path, root2 = write_game(i, rnd, tlc.WORK)
        root2max = rnd.choice(["TRUE", "FALSE"])
        try:
            for mode in ("full", "window", "noside", "nodepth"):
                cfg = tlc.write_cfg("%s_%s.cfg" % (name, mode), CFG.format(rootmax="TRUE", depth=depth, mode=mode, root2=root2, root2max=root2max))
                r = tlc.run(name, cfg, workers=2, heap="1g", young="200m", timeout=900)
                os.unlink(cfg)
                if mode == "full":
                    if r.violated:
                        raise tlc.TlcError("MC_Search family: game %d violates %s with the full cache key" % (i, r.violated))
                    states += r.distinct
                    gen += r.generated
                elif r.violated:
                    wfail += 1
                    fails[mode] = fails.get(mode, 0) + 1
        finally:
            os.unlink(path)
    return n, states, gen, fails
