"""The legal-move graph printed by Oracle_Graph: loading, path counting (perft), minimax folding."""
import json
import os

import tlc
from common import ToolError, write_ndjson, log

GRAPH_CFG = """SPECIFICATION Spec
CONSTANT MaxPly = {ply}
INVARIANT Emit
CHECK_DEADLOCK FALSE
"""


class Graph:
    def __init__(self):
        self.nodes = {}      # tuple(key) -> {"n":, "v":, "succ": [(move tuple, succ key tuple)] or None}
        self.roots = {}      # seed index -> key
        self.records = 0
        self.edges = 0

    def add(self, rec):
        k = tuple(rec["k"])
        self.records += 1
        if rec["ply"] == 0:
            self.roots[rec["seed"]] = k
        node = self.nodes.get(k)
        succ = [(tuple(s[:5]), tuple(s[5])) for s in rec["succ"]] if rec["succ"] else None
        if rec["n"] == 0:
            succ = []
        if node is None or (node["succ"] is None and succ is not None):
            self.nodes[k] = {"n": rec["n"], "v": rec["v"], "succ": succ}
        self.edges += len(rec["succ"])


def generate(ctx, seed_recs, ply, label="graph", timeout=7200, by_position=False):
    """Run Oracle_Graph from the seeds; returns a Graph (seed indices are 1-based positions in seed_recs)."""
    sp = write_ndjson(ctx.path(label + "_seeds.ndjson"), seed_recs)
    cfg = tlc.write_cfg("%s_%s_%d.cfg" % (label, ctx.prop, os.getpid()), GRAPH_CFG.format(ply=ply) + ("VIEW PosView\n" if by_position else ""))
    out = ctx.path(label + ".tlcout")
    # by_position: one record per position at its minimal distance; needs strict BFS order => one worker, one seed
    r = ctx.run_tlc("Oracle_Graph", cfg, env={"SEEDS": sp}, workers=1 if by_position else 16, out_path=out, timeout=timeout)
    os.unlink(cfg)
    if r.violated:
        raise ToolError("graph generation stopped: %s\n%s" % (r.violated, r.tail))
    g = Graph()
    with open(out, errors="replace") as f:
        for line in f:
            if line.startswith('"'):
                g.add(tlc.decode_record_line(line.rstrip("\n")))
    os.unlink(out)
    if g.records != r.distinct and not by_position:
        raise ToolError("graph: %d records for %d states" % (g.records, r.distinct))
    log("%s: Oracle_Graph %s: %d states, %d edges to ply %d in %.1fs" % (ctx.prop, label, g.records, g.edges, ply, r.wall))
    return g


def count_positions(g, key, depth, memo=None):
    """The figure count_positions(depth) must return: sum over k=1..depth+1 of the number of legal
    move sequences of length k."""
    if memo is None:
        memo = {}
    mk = (key, depth)
    if mk in memo:
        return memo[mk]
    node = g.nodes[key]
    if depth == 0 or node["n"] == 0:
        r = node["n"]
    else:
        if node["succ"] is None:
            raise ToolError("graph too shallow for the requested depth")
        r = node["n"] + sum(count_positions(g, s, depth - 1, memo) for _, s in node["succ"])
    memo[mk] = r
    return r


def perft(g, key, depth, memo=None):
    """number of legal move sequences of exactly `depth` plies"""
    if memo is None:
        memo = {}
    mk = (key, depth)
    if mk in memo:
        return memo[mk]
    node = g.nodes[key]
    if depth == 1:
        r = node["n"]
    else:
        if node["succ"] is None:
            raise ToolError("graph too shallow for the requested depth")
        r = sum(perft(g, s, depth - 1, memo) for _, s in node["succ"])
    memo[mk] = r
    return r
