"""C14 C15 (and the game-level part of C17): the Game API, validated by the game events of Trace_Engine."""
import json
import os
from concurrent.futures import ThreadPoolExecutor

import tlc
from common import ToolError, harness, load_seeds, seed_records, write_ndjson, log


def run_game_traces(ctx, scenario, shards, games, plies, extra=None, timeout=3000):
    seeds_path = write_ndjson(ctx.path("game_seeds.ndjson"), seed_records(load_seeds()))

    def one(i):
        out = ctx.path("game_%s_%d.ndjson" % (scenario, i))
        args = ["record-game", out, "--scenario", scenario, "--seed", ctx.seed * 1000 + i, "--games", games, "--plies", plies, "--seeds", seeds_path]
        if extra:
            args += extra
        summ = harness(args, timeout=timeout)
        summ["args"] = [str(a) for a in args]
        r = tlc.run("Trace_Engine", "Trace_Engine.cfg", env={"TRACE": out}, workers=1, want_records=True, stack="64m",
                    heap="1500m", young="300m", timeout=timeout)
        return i, out, summ, r

    with ThreadPoolExecutor(max_workers=min(shards, 8)) as ex:
        results = list(ex.map(one, range(shards)))
    bad, events, histories, skipped = [], 0, 0, 0
    for i, out, summ, r in results:
        if r.violated:
            raise ToolError("Trace_Engine model invariant %s failed -- defect of the specification\n%s" % (r.violated, r.tail))
        ctx.states += r.distinct
        ctx.transitions += r.generated
        ctx.tlc_runs.append({"module": "Trace_Engine", "scenario": "game:" + scenario, "events": summ["events"], "distinct": r.distinct, "wall_s": round(r.wall, 1)})
        if r.postcondition_failed or r.distinct != summ["events"] + 1:
            raise ToolError("game trace %s not consumed completely (%d states for %d events)\n%s" % (out, r.distinct, summ["events"], r.tail))
        events += summ["events"]
        histories += summ["histories"]
        lines = None
        for x in r.records:
            if "skip" in x:
                skipped += 1
            elif "bad" in x:
                if lines is None:
                    lines = open(out).read().splitlines()
                li = x["bad"]
                j = li - 1
                while j > 1 and '"ev":"GReset"' not in lines[j]:
                    j -= 1
                hist = []
                for l in lines[max(j, li - 30):li]:
                    e = json.loads(l)
                    if "pairs" in e and len(e["pairs"]) > 20:
                        e["pairs"] = e["pairs"][:20] + ["... %d more" % (len(e["pairs"]) - 20)]
                    hist.append(e)
                x["history_tail"] = hist
                x["trace_seed"] = ctx.seed * 1000 + i
                x["scenario"] = "game:" + scenario
                x["harness_args"] = summ["args"]
                bad.append(x)
        if len(ctx.samples) < 2 and summ["events"] > 3:
            with open(out) as f:
                f.readline()
                evs = []
                for _ in range(3):
                    e = json.loads(f.readline())
                    if "pairs" in e:
                        e["pairs"] = e["pairs"][:8]
                    evs.append(e)
                ctx.sample({"binding": "B2 game trace", "scenario": scenario, "first_events": evs})
        os.unlink(out)
    ctx.traces += histories
    log("%s: Trace_Engine game:%s: %d histories, %d events validated, %d skips, %d reported differences" % (ctx.prop, scenario, histories, events, skipped, len(bad)))
    return bad, events, histories


FOREIGN = {"key", "keyStable", "keyRestored", "sum", "inv", "seen", "gfm"}


def absorb_game(ctx, bad, evs, own=()):
    """game events rejected by TLC become violations of ctx.prop; differences that only concern the position key,
    the redundant summaries, the repetition count or the Game's own counter belong to C05 / C12 / C17 / C16 and
    are not judged here unless the caller names them in `own`"""
    n = 0
    for b in bad:
        d = set(b.get("diff", []))
        if d and d <= (FOREIGN - set(own)):
            k = "%s:%s" % (b.get("ev"), ",".join(sorted(d)))
            other = ctx.extra.setdefault("differences_in_other_jurisdictions", {})
            other[k] = other.get(k, 0) + 1
            continue
        if b.get("ev") in evs:
            n += 1
            ctx.violation(b["why"], {"binding": "B2 trace validation (Trace_Engine, game events)", "event_line": b["bad"], "event": b.get("ev"),
                                     "differs": b.get("diff"), "spec_says": b.get("x"), "scenario": b.get("scenario"),
                                     "trace_seed": b.get("trace_seed"), "harness_args": b.get("harness_args"), "history_tail": b.get("history_tail")},
                          sig={"ev": b.get("ev")})
    return n


def game_repetition(ctx):
    bad, ev, hist = run_game_traces(ctx, "shuffle", 1, 0, 0)
    absorb_game(ctx, [b for b in bad if "occurrence" in b["why"] or b["why"] == "draw reported too early"], {"GEnding"})
    ctx.evaluations += ev
    ctx.nontrivial += hist


def c14(ctx):
    quick = ctx.tier == "quick"
    bad, ev, hist = run_game_traces(ctx, "typed", 8, 4 if quick else 16, 40 if quick else 80, extra=["--full-every", 4 if quick else 2])
    absorb_game(ctx, bad, {"Coord", "CoordBatch", "Label", "LabelBatch", "GToggle"})
    # every catalogue position (rule interactions: two en-passant capturers, pinned pieces, promotions ...)
    badc, evc, histc = run_game_traces(ctx, "typedseeds", 8, 0, 0, extra=["--nshards", 8])
    absorb_game(ctx, badc, {"Coord", "CoordBatch", "Label", "LabelBatch", "GToggle"})
    ev += evc
    hist += histc
    ctx.evaluations += ev
    ctx.nontrivial += hist
    import cli
    cli.pvp_check(ctx)
    # `chess play`: lines chosen from the printed board, typed against the engine
    import frontends
    frontends.play_check(ctx, 50 if quick else 400)
    ctx.rule = ("B2: games through the Game API from the start position and from catalogue seeds; at every ply all 4096 coordinate pairs (every few plies) or a near-miss sample, "
                "near-miss notation strings derived from the labels the code prints (dropped/added x, wrong or missing disambiguation, wrong suffix, promotions without piece, labels of the previous position, junk), "
                "then one legal input by coordinates or by notation. TLC: accepted iff CoordMatch / LabelMatch is non-empty, the accepted input plays exactly that move (queen for a coordinate promotion) "
                "and becomes most_recent_move; a refused input leaves board, clocks, key and history as they were. distinct_nontrivial = games")
    ctx.assumptions += ["the history is observable only through Game::most_recent_move"]


def c15(ctx):
    quick = ctx.tier == "quick"
    bad, ev, hist = run_game_traces(ctx, "book", 1, 0, 0, extra=["--reps", 2 if quick else 6])
    absorb_game(ctx, bad, {"EngineMove", "BookEdges", "Coord", "CoordBatch"})
    ctx.extra["book_nodes_visited"] = hist
    bad2, ev2, h2 = run_game_traces(ctx, "offbook", 4 if quick else 12, 6 if quick else 20, 5 if quick else 10)
    absorb_game(ctx, bad2, {"EngineMove"})
    # supplied boards whose history coincides with a book prefix while book replies are unplayable
    bad3, ev3, h3 = run_game_traces(ctx, "oddsbook", 2 if quick else 6, 0, 0, extra=["--reps", 4 if quick else 8, "--max-nodes", 60 if quick else 300])
    absorb_game(ctx, bad3, {"EngineMove"})
    ctx.extra["odds_game_book_nodes"] = h3
    # long capture-free histories: the engine asked beyond the move-count draw and beyond the third recurrence
    bad4, ev4, h4 = run_game_traces(ctx, "longgame", 1, 0, 0, extra=["--rounds", 27 if quick else 70])
    absorb_game(ctx, bad4, {"EngineMove"})
    ctx.evaluations += ev + ev2 + ev3 + ev4
    ctx.nontrivial += hist + h2 + h3 + h4
    # the real engine-versus-engine game loop, observed through what it prints
    import cli
    cli.watch_check(ctx, 40 if quick else 420)
    # the engine's replies to a human at the `chess play` prompt
    import frontends
    frontends.play_check(ctx, 40 if quick else 300)
    if hist < 50:
        raise ToolError("vacuity guard: only %d opening-book nodes were visited" % hist)
    ctx.rule = ("B2: every node of the COMPILED opening-book trie (enumerated through Book::get_next_moves, so the build script's output for the current opening_lines.txt) is reached by playing its prefix "
                "through the Game API from the standard start; TLC requires every outgoing edge to be a legal move there and every answer of select_waterfall_book_then_alpha_beta_best_move "
                "(asked repeatedly, the choice is random) to be Ok(legal move) with the board untouched; the same on supplied boards and along random continuations off the book. "
                "distinct_nontrivial = book nodes + off-book games")


PROPS = {"C14": c14, "C15": c15}
