#!/bin/sh
# usage: try_mut.sh <worktree with a change applied> <check args...>   -- run a check against a scratch worktree without touching /repo
wt=$1; shift
mkdir -p /tmp/try
rsync -a --delete --exclude target /verif/harness/ /tmp/try/harness/
sed -i "s#path = \"/repo\"#path = \"$wt\"#; s#path = \"/repo/common\"#path = \"$wt/common\"#" /tmp/try/harness/Cargo.toml
cd /verif && VERIF_REPO=$wt VERIF_HARNESS_DIR=/tmp/try/harness VERIF_OUT=/tmp/try/out ./check "$@"
