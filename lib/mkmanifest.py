#!/usr/bin/env python3
"""Regenerate MANIFEST.json from the table below (single source of truth for the interface)."""
import json
import os
import subprocess

HERE = os.path.dirname(os.path.dirname(os.path.abspath(__file__)))

CHECKS = {
 "C01": ("TLA+ layer-R oracle replay (B1) + TLC validation of recorded move lists (B2)",
         "TLC enumerates every state of the rules specification within 2 (quick) / 3-4 (thorough) plies of 76 rule-interaction seeds, both colours; the real generator must return exactly Legal(pos) on each; in the other direction TLC validates the move lists the code produced along seeded random games and random consistent set-ups. Exhaustive within the explored neighbourhoods, sampled beyond.",
         "5 C01", "Rules.tla is the reference (self-tested against the published perft table); TLC 1.8.0; harness set-up/projection code"),
 "C03": ("TLA+ successor oracle replay (B1) + TLC validation of recorded apply steps (B2)",
         "every legal move of every oracle state is applied by the real code and the complete successor (64 squares, rights, ep target, turn) compared with SuccNoFlip of the specification; every move kind x colour must have been exercised or the check refuses to pass; random-game apply steps are validated by TLC.",
         "5 C03", "Rules.tla successor definition; TLC; harness projection"),
 "C06": ("TLA+ verdict/annotation oracle replay (B1) + TLC validation of recorded verdicts (B2)",
         "in-check, checkmate, stalemate verdicts and the check/mate annotation of every legal move compared with the specification on every oracle state (fresh and long-lived generator) and along random games.",
         "5 C06", "Rules.tla InCheck/Verdict/Effect; draws by move count are out of scope here (C16)"),
 "C13": ("TLA+ SAN oracle replay (B1) + TLC validation of recorded labels (B2)",
         "every label the code prints is compared with SAN(pos, m, Legal(pos)) of the specification and labels of a position must be pairwise distinct, on every oracle state (seeds contain the like-piece constellations) and along random games.",
         "5 C13", "Notation.tla transcribes FIDE appendix C; TLC"),
 "C19": ("TLA+ UCI oracle replay (B1) + TLC validation of recorded text/parse round trips (B2)",
         "to_uci of every legal move equals UCI(m) of the specification, strings are distinct per position, and the Stockfish-bridge parser (hook H3) reconstructs the rendered move (variant, fields, effect on the board).",
         "5 C19", "Notation.tla UCI; hook H3 exposes the private parser unchanged"),
 "C04": ("TLA+ mechanism model Engine.tla: TLC exhaustive (MC_Engine UndoRestores) + trace validation of recorded apply/undo histories (Trace_Engine)",
         "the engine's stacks and incremental key are modelled action by action; TLC proves UndoRestores on every state of the bounded model, and every Undo / Query event of long seeded histories recorded from the real board (undo bursts to any depth, queries, registrations) must reproduce the model's full projection: placement, turn, rights, ep, clocks, key, repetition count.",
         "5 C04", "Engine.tla mirrors src/board and src/chess_move; harness logs the public getters after every call"),
 "C05": ("TLA+ key algebra: TLC exhaustive (MC_Engine KeyInvariant + negative control) + TLC recomputation of the 64-bit key at every recorded event + constant tables (Trace_Tables)",
         "the key is modelled as a set of features toggled incrementally; KeyInvariant holds on the bounded model and fails for the stale-ep design; for every event of every recorded history TLC recomputes the key of the logged position from black-box-read constants on 16-bit limbs; the constants themselves are checked non-zero and pairwise distinct.",
         "5 C05", "constants are read black-box per run; thorough re-draws the build-time tables 3 more times"),
 "C12": ("TLA+ BoardInv: TLC on MC_Engine + every recorded event and sampled transient boards validated against the invariant and the summaries",
         "representation invariants (summaries = squares, one king a side, no pawn on rank 1/8, right => home squares, ep shape) evaluated by TLC on every model state, every logged state of random histories and boards observed between a move and its undo inside generation/search (hook H5).",
         "5 C12", "hook H5 observes transient boards; sampled 1-in-k"),
 "C14": ("TLA+ Game layer (CoordMatch/LabelMatch/GamePlay) : trace validation of typed-input games",
         "for positions along Game-API games: all 4096 coordinate pairs, near-miss notation strings and legal inputs; TLC decides accepted <=> names a legal move, accepted input plays exactly that move and is recorded, refused input changes nothing.",
         "5 C14", "history observable only via most_recent_move; CLI level in the thorough tier"),
 "C15": ("TLA+ book/engine-move events: every compiled book edge legal on layer R; engine move always a legal move (trace validation)",
         "the compiled opening-book trie is enumerated and replayed on the rules specification from the standard start; at every node, off the book and on supplied boards the engine's answer must be Ok(legal move).",
         "5 C15", "book enumerated through Book::get_next_moves of the current build (build script re-run when opening_lines.txt changes)"),
 "C16": ("TLA+ clock model: TLC on MC_Engine (ClockInvariant) + trace validation of long games incl. draw-by-move-count verdicts",
         "half-move clock = plies since last capture/pawn move and move counter = 1 + moves made, on the bounded model and after every apply/undo of 330-700-ply recorded games crossing 49/50/99/100 and 254/255/256 with overflow checks on; game_ending must say Draw iff the clock has reached 100.",
         "5 C16", "precedence of draw vs mate on the same ply not judged"),
 "C17": ("TLA+ repetition bag model: TLC on MC_Engine (RegInvariant) + trace validation of shuffling histories and Game-API games",
         "reported occurrence counts compared with the model's bag of full positions (placement, side, rights, ep) along recorded histories with recurrences, triangulation, rights loss, ep opportunities and interleaved undo; Game-API shuffle games must be drawn at the third occurrence.",
         "5 C17", "Game-level part is a known finding (D8b) on this tree"),
 "C02": ("TLA+ cache model: TLC on MC_GenCache (reachable engine states share no (key, colour) with different answers; two negative controls: stale-ep key, placement-only cache index) + Trace_Gen validation of long-lived vs brand-new generator answers",
         "a long-lived generator is compared with one that cannot hold a cached entry at every node of perft-shaped walks (start position to ply 4), games with backtracking and searches; the alarm is the property's own sentence; TLC replays the cache as a map and names the positions that shared a key.",
         "5 C02", "hook H1 provides the capacity-1 reference generator; attack maps compared on a sample"),
 "C10": ("TLA+ state graph of the rules (Oracle_Graph) -> path counts; replayed against every counting entry point",
         "the number count_positions must return is computed from the TLC state graph of layer R (self-tested against the published perft table) and compared with the parallel routine, its sequential inner routine (hook H4), new and used generators, several rayon pool sizes and the command-line driver.",
         "5 C10", "distinct legal moves lead to distinct successors, so graph paths = move sequences"),
 "C11": ("TLA+ ray-walk geometry: complete TLC enumeration of all 107 648 slider cases + leapers replayed against the magic tables; TLC validation of random occupancies",
         "exhaustive over (slider, square, relevant-blocker subset) for the table draw examined; every case replayed for both colours; random full boards incl. queens validated by TLC.",
         "5 C11", "magic constants of the current build in quick; 3 further draws in thorough"),
 "C18": ("TLA+ Mirror relation and score bounds: TLC validation of recorded (position, score, mirror, score) and mate-score-by-depth records",
         "colour symmetry of the static score on a covering family (every piece kind x square x colour x game phase), material extremes and game positions; |score| below every mate score; mate scores strictly improving with remaining depth 0..255; stalemate = 0; overflow checks on.",
         "5 C18", "the numeric piece-square tables are not transcribed; symmetry is a metamorphic relation supplied by the spec"),
 "C07": ("TLA+ Search outcome rules: Search events validated by Trace_Engine (legal move / declared errors / board untouched) + TLC on MC_Search (termination, all interleavings)",
         "alpha_beta_search on checkmated, stalemated, single-move, in-check and ordinary roots classified by the rules specification, depths 0..3(4), rayon pools 1/2/4/16, panics and hangs caught; TLC decides each outcome and compares the board projection before/after.",
         "5 C07", "watchdog of 300 s per search; roots from the oracle neighbourhood of the seed catalogue"),
 "C08": ("TLA+ state graph of each root (Oracle_Graph) folded into exact minimax vs the real search's (move, score); TLC on MC_Search (ExactValue/ExactTasks, negative control)",
         "reference = minimax over the TLC-generated legal-move graph with the engine's own leaf evaluation; compared with last_score and the returned move for brand-new contexts and for one context reused across successive searches of a game; the abstract search model is exact for the full cache key under every interleaving and inexact for the (hash, alpha, beta) key.",
         "5 C08", "fold done by the driver; roots are sparse (<= 7 men) so that depth-3/4 graphs stay small"),
 "C09": ("TLA+ Search cache actions: schedule-controlled execution of the real search (hook H2 token scheduler), answers compared across schedules, linearised traces validated by Trace_Search; TLC on MC_Search for all interleavings of the abstract model",
         "the schedule is made an input: every root-move task yields before each shared-cache read/write and a token is granted by seeded random / sticky / ordered / PCT-like / round-robin strategies plus native pools of 1-16 threads; the alarm is a differing (move, score), a panic or a hang; recorded traces are replayed against the cache actions of the specification.",
         "5 C09", "interleavings controlled at hook points only; exhaustive only at design level (MC_Search)"),
}


def main():
    props = [json.loads(l) for l in open(os.path.join(HERE, "properties.jsonl"))]
    hooks = subprocess.run(["git", "-C", "/repo", "log", "--format=%H %s"], stdout=subprocess.PIPE, text=True).stdout.splitlines()
    hook_commits = [l.split()[0] for l in hooks if " verif hook" in l]
    m = {
        "version": 1,
        "setup_cmd": "cd /verif && ./setup.sh",
        "hooks": {
            "guard": "chess_verif",
            "enable": "rustflags --cfg chess_verif in /verif/harness/.cargo/config.toml (the harness crate depends on /repo by path, so every check rebuilds /repo's working tree with hooks on)",
            "baseline_off_cmd": "cd /repo && cargo test --workspace --no-fail-fast --offline",
            "source_commits": list(reversed(hook_commits)),
            "add_only": True,
        },
        "engines": [
            {"name": "tlc", "path": "/verif/spec", "serves_properties": sorted(CHECKS), "kind_free_text": "explicit TLA+ specification checked with TLC; oracle generators, trace validators, bounded design models"},
            {"name": "harness", "path": "/verif/harness", "serves_properties": sorted(CHECKS), "kind_free_text": "Rust conformance harness: replays TLC-generated behaviours into the real code and records traces of the real code for TLC"},
        ],
        "checks": [],
        "not_applicable": [],
        "notes": "Exit codes: 0 held, 1 violation (VIOLATION lines), 2 tool error. VERIF_SEED / VERIF_TIER honoured. See DESIGN.md.",
    }
    for p in props:
        pid = p["id"]
        if pid in CHECKS:
            tech, text, ref, note = CHECKS[pid]
            m["checks"].append({
                "property_id": pid,
                "quick_cmd": "./check %s --tier quick" % pid,
                "thorough_cmd": "./check %s --tier thorough" % pid,
                "evidence_file": "/verif/evidence/%s.json" % pid,
                "replay_cmd_template": "./check %s --replay {path}" % pid,
                "engine": "tlc",
                "level_claimed": {"category": "model_checking", "text": text, "design_ref": "DESIGN.md section " + ref},
                "level_note": note,
                "technique": tech,
            })
        else:
            m["not_applicable"].append({"property_id": pid, "reason": "not claimed yet: its TLA+ check is still under construction in this build round (see DESIGN.md section 12)"})
    with open(os.path.join(HERE, "MANIFEST.json"), "w") as f:
        json.dump(m, f, indent=1)
    print("MANIFEST.json: %d checks, %d not claimed" % (len(m["checks"]), len(m["not_applicable"])))


if __name__ == "__main__":
    main()
