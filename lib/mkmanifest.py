#!/usr/bin/env python3
"""Regenerate MANIFEST.json from the table below (single source of truth for the interface)."""
import json
import os
import subprocess

HERE = os.path.dirname(os.path.dirname(os.path.abspath(__file__)))

CHECKS = {
 "C01": ("TLA+ layer-R oracle replay (B1) + TLC validation of recorded move lists (B2)",
         "TLC enumerates every state of the rules specification within 2 (quick) / 3-4 (thorough) plies of 76 rule-interaction seeds, both colours; the real generator must return exactly Legal(pos) on each; in the other direction TLC validates the move lists the code produced along seeded random games and random consistent set-ups. Exhaustive within the explored neighbourhoods, sampled beyond.",
         "5 C01", "Rules.tla is the reference (self-tested against the published perft table); TLC 1.8.0; harness set-up/projection code"),
 "C03": ("TLA+ successor oracle replay (B1) + TLC validation of recorded apply steps (B2)",
         "every legal move of every oracle state is applied by the real code and the complete successor (64 squares, rights, ep target, turn) compared with SuccNoFlip of the specification; every move kind x colour must have been exercised or the check refuses to pass; random-game apply steps are validated by TLC.",
         "5 C03", "Rules.tla successor definition; TLC; harness projection"),
 "C06": ("TLA+ verdict/annotation oracle replay (B1) + TLC validation of recorded verdicts (B2)",
         "in-check, checkmate, stalemate verdicts and the check/mate annotation of every legal move compared with the specification on every oracle state (fresh and long-lived generator) and along random games.",
         "5 C06", "Rules.tla InCheck/Verdict/Effect; draws by move count are out of scope here (C16)"),
 "C13": ("TLA+ SAN oracle replay (B1) + TLC validation of recorded labels (B2)",
         "every label the code prints is compared with SAN(pos, m, Legal(pos)) of the specification and labels of a position must be pairwise distinct, on every oracle state (seeds contain the like-piece constellations) and along random games.",
         "5 C13", "Notation.tla transcribes FIDE appendix C; TLC"),
 "C19": ("TLA+ UCI oracle replay (B1) + TLC validation of recorded text/parse round trips (B2)",
         "to_uci of every legal move equals UCI(m) of the specification, strings are distinct per position, and the Stockfish-bridge parser (hook H3) reconstructs the rendered move (variant, fields, effect on the board).",
         "5 C19", "Notation.tla UCI; hook H3 exposes the private parser unchanged"),
}


def main():
    props = [json.loads(l) for l in open(os.path.join(HERE, "properties.jsonl"))]
    hooks = subprocess.run(["git", "-C", "/repo", "log", "--format=%H %s"], stdout=subprocess.PIPE, text=True).stdout.splitlines()
    hook_commits = [l.split()[0] for l in hooks if " verif hook" in l]
    m = {
        "version": 1,
        "setup_cmd": "cd /verif && ./setup.sh",
        "hooks": {
            "guard": "chess_verif",
            "enable": "rustflags --cfg chess_verif in /verif/harness/.cargo/config.toml (the harness crate depends on /repo by path, so every check rebuilds /repo's working tree with hooks on)",
            "baseline_off_cmd": "cd /repo && cargo test --workspace --no-fail-fast --offline",
            "source_commits": list(reversed(hook_commits)),
            "add_only": True,
        },
        "engines": [
            {"name": "tlc", "path": "/verif/spec", "serves_properties": sorted(CHECKS), "kind_free_text": "explicit TLA+ specification checked with TLC; oracle generators, trace validators, bounded design models"},
            {"name": "harness", "path": "/verif/harness", "serves_properties": sorted(CHECKS), "kind_free_text": "Rust conformance harness: replays TLC-generated behaviours into the real code and records traces of the real code for TLC"},
        ],
        "checks": [],
        "not_applicable": [],
        "notes": "Exit codes: 0 held, 1 violation (VIOLATION lines), 2 tool error. VERIF_SEED / VERIF_TIER honoured. See DESIGN.md.",
    }
    for p in props:
        pid = p["id"]
        if pid in CHECKS:
            tech, text, ref, note = CHECKS[pid]
            m["checks"].append({
                "property_id": pid,
                "quick_cmd": "./check %s --tier quick" % pid,
                "thorough_cmd": "./check %s --tier thorough" % pid,
                "evidence_file": "/verif/evidence/%s.json" % pid,
                "replay_cmd_template": "./check %s --replay {path}" % pid,
                "engine": "tlc",
                "level_claimed": {"category": "model_checking", "text": text, "design_ref": "DESIGN.md section " + ref},
                "level_note": note,
                "technique": tech,
            })
        else:
            m["not_applicable"].append({"property_id": pid, "reason": "not claimed yet: its TLA+ check is still under construction in this build round (see DESIGN.md section 12)"})
    with open(os.path.join(HERE, "MANIFEST.json"), "w") as f:
        json.dump(m, f, indent=1)
    print("MANIFEST.json: %d checks, %d not claimed" % (len(m["checks"]), len(m["not_applicable"])))


if __name__ == "__main__":
    main()
