"""Command-line level of C14: the real `chess pvp` binary is driven over stdin with the labels the
engine itself prints along scripted games (incl. castling that gives check, captures, promotions,
mate) and with lines that must be refused; the boards it prints are parsed back and the session is
validated by the Cli events of Trace_Engine."""
import json
import os
import select
import subprocess
import time

import tlc
from common import ToolError, harness, log, REPO, HARNESS_DIR

BIN_DIR = os.path.join(HARNESS_DIR, "target", "chessbin")
GLYPH = {"♟": 1, "♞": 2, "♝": 3, "♜": 4, "♛": 5, "♚": 6, "♙": 7, "♘": 8, "♗": 9, "♖": 10, "♕": 11, "♔": 12, ".": 0}

SCRIPTS = [
    {"name": "queenside castle giving check",
     "moves": ["d2d4", "c7c5", "d4c5", "d7d5", "e2e4", "d5e4", "d1d8", "e8d8", "b1c3", "g8f6", "c1g5", "e7e6", "e1c1", "d8c7", "g5f6", "g7f6"]},
    {"name": "scholar's mate", "moves": ["e2e4", "e7e5", "f1c4", "b8c6", "d1h5", "g8f6", "h5f7"]},
    {"name": "promotion with capture, kingside castle",
     "moves": ["h2h4", "g7g5", "h4g5", "h7h6", "g5h6", "g8f6", "h6h7", "h8g8", "h7g8q", "f6g8", "g1f3", "e7e6", "e2e3", "f8e7", "f1e2", "g8f6", "e1g1", "e8f8"]},
    {"name": "en passant and knights to one square",
     "moves": ["e2e4", "a7a6", "e4e5", "d7d5", "e5d6", "c7d6", "g1f3", "b8c6", "b1c3", "c6e5", "c3e4", "g8f6", "e4g5", "f6g4", "f3e5", "g4e5"]},
]
# lines that can never name a legal move (so the scripted game stays on its line)
JUNK = ["a1a1", "O-O-O-O", "e9", "Ke4x", "i4", "h8h8", "Nxz9", "0-0", "Pe4", "e4e", "=Q", "Qa1xb2", "R1a9", "xx", "O-O-O+#", "e8=K"]


def build_binary():
    env = dict(os.environ)
    env["CARGO_NET_OFFLINE"] = "true"
    t0 = time.time()
    p = subprocess.run(["cargo", "build", "--offline", "--bin", "chess", "--manifest-path", os.path.join(REPO, "Cargo.toml"), "--target-dir", BIN_DIR],
                       stdout=subprocess.PIPE, stderr=subprocess.STDOUT, text=True, env=env)
    if p.returncode != 0:
        raise ToolError("building the chess binary failed:\n" + p.stdout[-3000:])
    log("cli: chess binary built in %.1fs" % (time.time() - t0))
    return os.path.join(BIN_DIR, "debug", "chess")


def parse_boards(text):
    """sequence of (turn, b[64]) snapshots printed by the pvp loop"""
    out = []
    lines = text.splitlines()
    i = 0
    while i < len(lines):
        if lines[i].startswith("turn: ") and i + 8 < len(lines) + 0:
            rows = lines[i + 1:i + 9]
            if len(rows) == 8 and all(len(r) == 8 and all(ch in GLYPH for ch in r) for r in rows):
                b = [0] * 64
                for ri, row in enumerate(rows):
                    rank = 7 - ri
                    for f, ch in enumerate(row):
                        b[rank * 8 + f] = GLYPH[ch]
                out.append((1 if lines[i].strip() == "turn: white" else 0, b))
                i += 9
                continue
        i += 1
    return out


def run_session(binary, inputs, timeout=90):
    """feed the lines one by one, reading the board the program prints after each"""
    p = subprocess.Popen([binary, "pvp"], stdin=subprocess.PIPE, stdout=subprocess.PIPE, stderr=subprocess.STDOUT, text=True, bufsize=1)
    buf = ""
    snaps = []

    def read_until(n, limit):
        nonlocal buf
        t0 = time.time()
        while time.time() - t0 < limit:
            r, _, _ = select.select([p.stdout], [], [], 0.2)
            if r:
                chunk = os.read(p.stdout.fileno(), 65536).decode("utf-8", "replace")
                if not chunk:
                    break
                buf += chunk
                if len(parse_boards(buf)) >= n:
                    # the board is complete once the 8th row's newline has arrived
                    if buf.endswith("\n"):
                        return True
            if p.poll() is not None and not r:
                break
        return len(parse_boards(buf)) >= n

    ok = read_until(1, timeout)
    results = []
    if not ok:
        p.kill()
        raise ToolError("chess pvp did not print an initial board:\n" + buf[-500:])
    for k, line in enumerate(inputs):
        before = len(parse_boards(buf))
        mark = len(buf)
        try:
            p.stdin.write(line + "\n")
            p.stdin.flush()
        except BrokenPipeError:
            break
        got = read_until(before + 1, timeout)
        boards = parse_boards(buf)
        if not got:
            # the program ended (e.g. after mate) or hung
            results.append({"line": line, "printed": None})
            break
        chunk = buf[mark:]
        react = "invalid" if "invalid input" in chunk else ("error" if "error:" in chunk else "accepted")
        results.append({"line": line, "printed": boards[-1], "react": react})
    p.kill()
    p.wait()
    return parse_boards(buf)[0], results, buf


def pvp_check(ctx):
    binary = build_binary()
    sp = ctx.path("cli_scripts.json")
    with open(sp, "w") as f:
        json.dump(SCRIPTS, f)
    labels = harness(["cli-labels", sp])
    trace = ctx.path("cli_trace.ndjson")
    tables = ctx.path("cli_tables.ndjson")
    harness(["record-trace", tables, "--scenario", "scripts", "--seed", 1])
    with open(tables) as f:
        tab = f.readline()
    events = 0
    typed = 0
    with open(trace, "w") as fo:
        fo.write(tab)
        for si, sc in enumerate(labels["scripts"]):
            inputs = []
            for i, ply in enumerate(sc["plies"]):
                if ply["label"] is None:
                    raise ToolError("cli script %s: move %s is not offered by the engine" % (sc["name"], ply["uci"]))
                inputs.append(JUNK[(i + si) % len(JUNK)])           # a line that must be refused
                # the label the engine prints; now and then the coordinate form instead
                inputs.append(ply["uci"][:4] if i % 5 == 3 else ply["label"])
            start, results, raw = run_session(binary, inputs)
            startobs = {"b": start[1], "turn": start[0], "cr": 15, "ep": 0, "hm": 0, "fm": 1, "key": [0, 0, 0, 0], "seen": 1,
                        "last": {"k": "-", "f": 0, "t": 0, "p": 0, "c": 0}}
            fo.write(json.dumps({"ev": "CliReset", "obs": startobs}) + "\n")
            events += 1
            for r in results:
                if r["printed"] is None:
                    break
                line = r["line"]
                ev = {"ev": "Cli", "s": line, "chars": list(line), "react": r["react"], "b": r["printed"][1], "turn": r["printed"][0], "obs": startobs}
                if len(line) == 4 and line[0] in "abcdefgh" and line[1] in "12345678" and line[2] in "abcdefgh" and line[3] in "12345678":
                    ev["kind"] = "coord"
                    ev["f"] = (ord(line[0]) - 97) + (int(line[1]) - 1) * 8 + 1
                    ev["t"] = (ord(line[2]) - 97) + (int(line[3]) - 1) * 8 + 1
                else:
                    ev["kind"] = "label"
                    ev["f"] = 0
                    ev["t"] = 0
                fo.write(json.dumps(ev) + "\n")
                events += 1
                typed += 1
    r = tlc.run("Trace_Engine", "Trace_Engine.cfg", env={"TRACE": trace}, workers=1, want_records=True, stack="64m", heap="1500m", young="300m", timeout=1800)
    if r.violated:
        raise ToolError("Trace_Engine model invariant failed on the CLI trace: %s" % r.violated)
    if r.postcondition_failed or r.distinct != events + 1:
        raise ToolError("CLI trace not consumed completely (%d states, %d events)\n%s" % (r.distinct, events, r.tail))
    ctx.states += r.distinct
    ctx.transitions += r.generated
    ctx.traces += len(labels["scripts"])
    ctx.evaluations += typed
    lines = open(trace).read().splitlines()
    for x in r.records:
        if "bad" in x:
            ev = json.loads(lines[x["bad"] - 1])
            ctx.violation(x["why"], {"binding": "B2 command-line session (chess pvp over stdin), Trace_Engine Cli event", "typed": ev.get("s"), "detail": x.get("x")},
                          sig={"ev": "Cli", "typed": ev.get("s")})
    # vacuity guard: unless something was reported, every scripted label must have been typed and accepted
    expected = sum(len(sc["plies"]) for sc in labels["scripts"])
    accepted = 0
    prev = None
    for l in lines[1:]:
        e = json.loads(l)
        if e["ev"] == "CliReset":
            prev = (e["obs"]["b"], e["obs"]["turn"])
        elif e["ev"] == "Cli":
            cur = (e["b"], e["turn"])
            if cur != prev:
                accepted += 1
            prev = cur
    if not any("bad" in x for x in r.records) and accepted < expected - 1:
        raise ToolError("cli: only %d of %d scripted moves were accepted although nothing was reported" % (accepted, expected))
    ctx.extra["cli_lines_typed"] = typed
    ctx.extra["cli_lines_accepted"] = accepted
    log("%s: command line: %d lines typed into `chess pvp` along %d scripted games, validated by TLC" % (ctx.prop, typed, len(labels["scripts"])))


def parse_watch(text):
    """turns printed by `chess watch`: (board, last move label, mover, half-move clock) and the final verdict"""
    lines = text.splitlines()
    turns, end = [], None
    i = 0
    board = None
    while i < len(lines):
        l = lines[i]
        if l.startswith("  ┌"):
            rows = []
            j = i + 1
            while j < len(lines) and len(rows) < 8:
                if len(lines[j]) > 2 and lines[j][0] in "12345678" and "│" in lines[j]:
                    cells = lines[j].split("│")[1:9]
                    rows.append((int(lines[j][0]), [c.strip() for c in cells]))
                j += 1
            if len(rows) == 8 and all(len(c) == 8 for _, c in rows):
                b = [0] * 64
                ok = True
                for rank, cells in rows:
                    for f, ch in enumerate(cells):
                        ch = ch if ch not in ("", "·") else "."
                        if ch not in GLYPH:
                            ok = False
                        else:
                            b[(rank - 1) * 8 + f] = GLYPH[ch]
                board = b if ok else None
            i = j
            continue
        if l.startswith("Last move: ") and board is not None:
            last = l[len("Last move: "):].strip()
            mover, hm = None, None
            for k in range(i + 1, min(i + 8, len(lines))):
                if lines[k].startswith("* Turn: "):
                    mover = 1 if lines[k].strip().endswith("white") else 0
                if lines[k].startswith("* Halfmove clock: "):
                    hm = int(lines[k].split(":")[1])
            if mover is not None and hm is not None:
                turns.append({"b": board, "last": last, "mover": mover, "hm": hm})
            board = None
        for word in ("checkmate!", "stalemate!", "draw!"):
            if l.strip() == word:
                end = {"res": word[:-1], "msg": ""}
        if l.startswith("error: "):
            end = {"res": "error", "msg": l}
        i += 1
    return turns, end


def watch_check(ctx, seconds):
    """the engine-versus-engine game loop of the real binary, observed for `seconds` and validated turn by turn"""
    binary = build_binary()
    p = subprocess.Popen([binary, "watch", "--depth", "1"], stdout=subprocess.PIPE, stderr=subprocess.STDOUT)
    buf = b""
    t0 = time.time()
    while time.time() - t0 < seconds:
        r, _, _ = select.select([p.stdout], [], [], 0.5)
        if r:
            chunk = os.read(p.stdout.fileno(), 65536)
            if not chunk:
                break
            buf += chunk
        if p.poll() is not None and not r:
            break
    p.kill()
    p.wait()
    text = buf.decode("utf-8", "replace")
    turns, end = parse_watch(text)
    if len(turns) < 3:
        raise ToolError("watch: only %d turns could be parsed from the game loop's output" % len(turns))
    # a turn whose last lines were cut off by the kill is dropped by the parser; the verdict only counts if the process ended
    trace = ctx.path("watch_trace.ndjson")
    tables = ctx.path("watch_tables.ndjson")
    harness(["record-trace", tables, "--scenario", "scripts", "--seed", 1])
    import fen as fenlib
    start = fenlib.parse("rnbqkbnr/pppppppp/8/8/8/8/PPPPPPPP/RNBQKBNR w KQkq -")
    startobs = {"b": start["b"], "turn": 1, "cr": 15, "ep": 0, "hm": 0, "fm": 1, "key": [0, 0, 0, 0], "seen": 1,
                "last": {"k": "-", "f": 0, "t": 0, "p": 0, "c": 0}}
    n = 0
    with open(trace, "w") as fo:
        fo.write(open(tables).readline())
        fo.write(json.dumps({"ev": "CliReset", "obs": startobs}) + "\n")
        n += 1
        for t in turns:
            fo.write(json.dumps({"ev": "Watch", "b": t["b"], "last": t["last"], "mover": t["mover"], "hm": t["hm"], "obs": startobs}) + "\n")
            n += 1
        if end is not None and p.returncode is not None:
            fo.write(json.dumps({"ev": "WatchEnd", "res": end["res"], "msg": end["msg"], "obs": startobs}) + "\n")
            n += 1
    r = tlc.run("Trace_Engine", "Trace_Engine.cfg", env={"TRACE": trace}, workers=1, want_records=True, stack="64m", heap="1500m", young="300m", timeout=1800)
    if r.violated:
        raise ToolError("Trace_Engine model invariant failed on the watch trace: %s" % r.violated)
    if r.postcondition_failed or r.distinct != n + 1:
        raise ToolError("watch trace not consumed completely (%d states, %d events)\n%s" % (r.distinct, n, r.tail))
    ctx.states += r.distinct
    ctx.transitions += r.generated
    ctx.traces += 1
    ctx.evaluations += len(turns)
    lines = open(trace).read().splitlines()
    for x in r.records:
        if "bad" in x:
            ev = json.loads(lines[x["bad"] - 1])
            ctx.violation(x["why"], {"binding": "B2 engine-versus-engine game loop (chess watch), Trace_Engine Watch event", "turn_number": x["bad"] - 2,
                                     "printed_move": ev.get("last"), "detail": x.get("x")}, sig={"ev": ev["ev"]})
    ctx.extra["watch_turns_validated"] = len(turns)
    ctx.extra["watch_verdict"] = end["res"] if end else "still playing when observation stopped"
    log("%s: game loop: %d turns of `chess watch --depth 1` validated by TLC (%s)" % (ctx.prop, len(turns), ctx.extra["watch_verdict"]))
